// Correspondence harness for C36 (fasthttpadaptor behaves like net/http).
//
// resp cases: one generated handler program is run (a) under a real fasthttp.Server through
// fasthttpadaptor.NewFastHTTPHandler and (b) under a real net/http.Server, both over in-memory
// connections; a raw client records the final response of each.
// conv cases: the same request bytes go through fasthttp's request reader + ConvertRequest and through
// http.ReadRequest; the resulting http.Request fields are recorded.
package main

import (
	"bufio"
	"bytes"
	"fmt"
	"io"
	"log"
	"math/rand"
	"net"
	"net/http"
	"net/url"
	"sort"
	"strconv"
	"strings"
	"sync/atomic"
	"time"

	"github.com/valyala/fasthttp"
	"github.com/valyala/fasthttp/fasthttpadaptor"
	"verif/harness/hlib"
)

type opd struct {
	K string `json:"k"` // wh add set del write flush
	C int    `json:"c,omitempty"`
	N hlib.B `json:"n,omitempty"`
	V hlib.B `json:"v,omitempty"`
}

type desc struct {
	T    string `json:"t"` // resp | conv
	Part int    `json:"part"`
	// resp
	Req  string `json:"req,omitempty"` // get11 head11 get10 post11
	Prog []opd  `json:"prog,omitempty"`
	Prev []opd  `json:"prev,omitempty"` // when set: served first, to a keep-alive request on the same connection
	Func bool   `json:"func,omitempty"` // adaptor built with NewFastHTTPHandlerFunc
	// conv: convert another request into the same http.Request first
	Reuse bool `json:"reuse,omitempty"`
	// conv
	PName  hlib.B      `json:"pname,omitempty"`
	Method string      `json:"method,omitempty"`
	Target string      `json:"target,omitempty"`
	Proto  string      `json:"proto,omitempty"`
	Hdrs   [][2]hlib.B `json:"hdrs,omitempty"`
	Body   hlib.B      `json:"body,omitempty"`
	Chunk  bool        `json:"chunk,omitempty"`
}

// ---------------------------------------------------------------- servers

var cur atomic.Pointer[[]opd]

func handler(w http.ResponseWriter, r *http.Request) {
	p := cur.Load()
	if p == nil {
		return
	}
	for _, o := range *p {
		switch o.K {
		case "wh":
			w.WriteHeader(o.C)
		case "add":
			w.Header().Add(string(o.N), string(o.V))
		case "set":
			w.Header().Set(string(o.N), string(o.V))
		case "del":
			w.Header().Del(string(o.N))
		case "write":
			w.Write(o.V)
		case "flush":
			w.(http.Flusher).Flush()
		case "echo": // what the handler sees of the request
			body, _ := io.ReadAll(r.Body)
			fmt.Fprintf(w, "%s %s %s %s %s [%s]", r.Method, r.RequestURI, r.Proto, r.Host, r.Header.Get("X-Req"), body)
		}
	}
}

// what "echo" must write, from the request bytes alone
var echoOf = map[string]string{
	"get11":  "GET /p?q=1 HTTP/1.1 x q7 []",
	"head11": "HEAD /p HTTP/1.1 x q7 []",
	"get10":  "GET /p HTTP/1.0 x q7 []",
	"post11": "POST /p HTTP/1.1 x q7 [abc]",
}

// pipeListener: an in-memory net.Listener over net.Pipe (synchronous, with working deadlines; net/http's
// server relies on SetReadDeadline to abort its background read)
type pipeListener struct{ ch chan net.Conn }

func newPipeListener() *pipeListener { return &pipeListener{ch: make(chan net.Conn)} }
func (l *pipeListener) Accept() (net.Conn, error) {
	c, ok := <-l.ch
	if !ok {
		return nil, io.EOF
	}
	return c, nil
}
func (l *pipeListener) Close() error   { return nil }
func (l *pipeListener) Addr() net.Addr { return pipeAddr{} }
func (l *pipeListener) Dial() (net.Conn, error) {
	c1, c2 := net.Pipe()
	l.ch <- c2
	return c1, nil
}

type pipeAddr struct{}

func (pipeAddr) Network() string { return "pipe" }
func (pipeAddr) String() string  { return "pipe" }

var lnNet, lnFast, lnFastFunc *pipeListener

func startServers() {
	lnNet = newPipeListener()
	lnFast = newPipeListener()
	lnFastFunc = newPipeListener()
	fs2 := &fasthttp.Server{Handler: fasthttpadaptor.NewFastHTTPHandlerFunc(handler), Logger: log.New(io.Discard, "", 0)}
	go fs2.Serve(lnFastFunc)
	hs := &http.Server{Handler: http.HandlerFunc(handler), ErrorLog: log.New(io.Discard, "", 0)}
	go hs.Serve(lnNet)
	fs := &fasthttp.Server{Handler: fasthttpadaptor.NewFastHTTPHandler(http.HandlerFunc(handler)), Logger: log.New(io.Discard, "", 0)}
	go fs.Serve(lnFast)
}

var reqBytes = map[string]string{
	"get11":  "GET /p?q=1 HTTP/1.1\r\nHost: x\r\nX-Req: q7\r\nConnection: close\r\n\r\n",
	"head11": "HEAD /p HTTP/1.1\r\nHost: x\r\nX-Req: q7\r\nConnection: close\r\n\r\n",
	"get10":  "GET /p HTTP/1.0\r\nHost: x\r\nX-Req: q7\r\n\r\n",
	"post11": "POST /p HTTP/1.1\r\nHost: x\r\nX-Req: q7\r\nConnection: close\r\nContent-Length: 3\r\n\r\nabc",
}

type robs struct {
	ok     bool
	status int
	hdr    http.Header
	body   []byte
}

// readFinal reads the final response (interim 1xx skipped) of one request from the connection
func readFinal(br *bufio.Reader, method string) (robs, bool) {
	for i := 0; i < 64; i++ {
		r, err := http.ReadResponse(br, &http.Request{Method: method})
		if err != nil {
			return robs{}, true
		}
		if r.StatusCode >= 100 && r.StatusCode < 200 && r.StatusCode != 101 {
			continue // interim response
		}
		b, err := io.ReadAll(r.Body)
		if err != nil {
			return robs{}, true
		}
		return robs{ok: true, status: r.StatusCode, hdr: r.Header, body: b}, r.Close || r.StatusCode == 101
	}
	return robs{}, true
}

// roundtrip serves prog to req; when prev is non-nil it is first served to a keep-alive request on the same
// connection (usable reports whether the connection survived that first exchange)
func roundtrip(ln *pipeListener, req string, prog, prev []opd) (out robs, usable bool) {
	c, err := ln.Dial()
	if err != nil {
		return robs{}, false
	}
	defer c.Close()
	c.SetDeadline(time.Now().Add(60 * time.Second))
	br := bufio.NewReader(c)
	if prev != nil {
		cur.Store(&prev)
		go c.Write([]byte("GET /p1 HTTP/1.1\r\nHost: x\r\nX-Req: first\r\n\r\n"))
		first, closed := readFinal(br, "GET")
		if !first.ok || closed {
			return robs{}, false
		}
	}
	cur.Store(&prog)
	go c.Write([]byte(req))
	method := strings.SplitN(req, " ", 2)[0]
	out, _ = readFinal(br, method)
	return out, true
}

// ---------------------------------------------------------------- Coq printing

// bs prints a byte string compactly: printable ASCII as (s2b "..."), anything else as (h "hex").
// (Parsing the case files is the dominant cost of a run: about 45 us per source character.)
func bs(b []byte) string {
	if len(b) > 256 { // long strings: runs of one byte as (rep c n), the rest in pieces (huge literals overflow coqc's stack)
		var parts []string
		lit := 0
		flush := func(end int) {
			for lit < end {
				e := min(end, lit+2000)
				parts = append(parts, bsShort(b[lit:e:e]))
				lit = e
			}
		}
		for i := 0; i < len(b); {
			j := i
			for j < len(b) && b[j] == b[i] {
				j++
			}
			if j-i >= 64 {
				flush(i)
				parts = append(parts, fmt.Sprintf("(rep %d%%N %d%%Z)", b[i], j-i))
				lit = j
			}
			i = j
		}
		flush(len(b))
		if len(parts) == 1 && strings.HasPrefix(parts[0], "(rep") {
			return parts[0]
		}
		if len(parts) > 1 || len(b) > 2000 {
			return "(List.concat [" + strings.Join(parts, "; ") + "])"
		}
	}
	return bsShort(b)
}

func bsShort(b []byte) string {
	for _, c := range b {
		if c < 0x20 || c > 0x7e || c == '"' {
			return hlib.Hex(b)
		}
	}
	return `(s2b "` + string(b) + `")`
}
func bss(s string) string { return bs([]byte(s)) }

// names that the compared projection never looks at (Spec excluded_name): not emitted
func excludedName(k string) bool {
	switch k {
	case "Date", "Content-Length", "Connection", "Transfer-Encoding", "Trailer":
		return true
	}
	return false
}

func coqHdr(h http.Header, dropExcluded bool) string {
	ks := make([]string, 0, len(h))
	for k := range h {
		if dropExcluded && excludedName(k) {
			continue
		}
		ks = append(ks, k)
	}
	sort.Strings(ks)
	items := make([]string, 0, len(ks))
	for _, k := range ks {
		vs := make([]string, len(h[k]))
		for i, v := range h[k] {
			vs[i] = bss(v)
		}
		items = append(items, hlib.Tuple(bss(k), hlib.List(vs)))
	}
	return hlib.List(items)
}

func coqRobs(o robs) string {
	if !o.ok {
		return hlib.App("Build_robs", "false", hlib.Z(0), "[]", hlib.Hex(nil))
	}
	return hlib.App("Build_robs", "true", hlib.Z(int64(o.status)), coqHdr(o.hdr, true), bs(o.body))
}

var echoReq string // set by runResp: what an echo op writes for the request of the case

func coqProg(p []opd) string {
	it := make([]string, len(p))
	for i, o := range p {
		switch o.K {
		case "wh":
			it[i] = hlib.App("WriteHeader", hlib.Z(int64(o.C)))
		case "add":
			it[i] = hlib.App("HAdd", bs(o.N), bs(o.V))
		case "set":
			it[i] = hlib.App("HSet", bs(o.N), bs(o.V))
		case "del":
			it[i] = hlib.App("HDel", bs(o.N))
		case "write":
			it[i] = hlib.App("Write", bs(o.V))
		case "flush":
			it[i] = "Flush"
		case "echo":
			it[i] = hlib.App("Write", bss(echoReq))
		default:
			panic("bad op " + o.K)
		}
	}
	return hlib.List(it)
}

// ---------------------------------------------------------------- resp: classification of the input

type progClass struct {
	lateStatus, lateHeader, singleton, ct304, flushed bool
	status                                            int
}

func informational(c int) bool { return c >= 100 && c <= 199 && c != 101 }

// classify mirrors only the *syntactic* classes named in findings/C36.txt (the verdict itself is Coq's).
func classify(p []opd) progClass {
	var pc progClass
	h := http.Header{}
	var frozen http.Header
	committed, codeSet := false, false
	pc.status = 200
	commit := func(c int) {
		if !committed {
			committed = true
			pc.status = c
			frozen = h.Clone()
		}
	}
	for _, o := range p {
		switch o.K {
		case "wh":
			if informational(o.C) {
				continue
			}
			if !committed {
				commit(o.C)
				codeSet = true
			} else if !codeSet && !pc.flushed {
				pc.lateStatus = true
				codeSet = true
			}
		case "add", "set", "del":
			if committed && !pc.flushed {
				pc.lateHeader = true
			}
			switch o.K {
			case "add":
				h.Add(string(o.N), string(o.V))
			case "set":
				h.Set(string(o.N), string(o.V))
			default:
				h.Del(string(o.N))
			}
		case "write", "echo":
			commit(200)
		case "flush":
			commit(200)
			pc.flushed = true
		}
	}
	if frozen == nil {
		frozen = h
	}
	for _, n := range []string{"Content-Type", "Content-Encoding", "Server"} {
		vs := frozen[n]
		if len(vs) >= 2 || (len(vs) == 1 && vs[0] == "") {
			pc.singleton = true
		}
	}
	if pc.status == 304 && len(frozen["Content-Type"]) > 0 {
		pc.ct304 = true
	}
	return pc
}

func szClass(n int) string {
	switch {
	case n <= 2048:
		return "s"
	case n <= 4096:
		return "m"
	case n <= 32768:
		return "l"
	}
	return "xl"
}

func runResp(d desc) hlib.Case {
	req, ok := reqBytes[d.Req]
	if !ok {
		panic("bad req kind " + d.Req)
	}
	prog := d.Prog
	echoReq = echoOf[d.Req]
	fast := lnFast
	if d.Func {
		fast = lnFastFunc
	}
	n, ok1 := roundtrip(lnNet, req, prog, d.Prev)
	a, ok2 := roundtrip(fast, req, prog, d.Prev)
	if !ok1 || !ok2 {
		// the first exchange ended the connection on one side (Connection: close set by the first program, 101, ...)
		return hlib.Case{Kind: "resp-skip", Coq: "CSkip"}
	}
	pc := classify(prog)
	size := 0
	for _, o := range prog {
		size += len(o.V)
	}
	c := hlib.Case{Kind: "resp-" + d.Req, Size: size}
	c.Coq = hlib.App("CResp", hlib.N(uint64(d.Part)), hlib.Bool(d.Req == "head11"), coqProg(prog), coqRobs(a), coqRobs(n))
	switch d.Part {
	case 1:
		// (late-writeheader / late-header-mutation were repaired in 8ad8bae: those programs must pass now)
		switch {
		case pc.singleton:
			c.Key = "singleton-header-collapse"
		case pc.ct304:
			c.Key = "content-type-on-304"
		}
	}
	c.Sig = fmt.Sprintf("resp:%s:p%d:s%d:f%v:n%d:ls%v:lh%v:sg%v:ka%v:fn%v:sz%s", d.Req, d.Part, a.status, pc.flushed, min(len(prog), 6), pc.lateStatus, pc.lateHeader, pc.singleton, d.Prev != nil, d.Func, szClass(size))
	return c
}

// ---------------------------------------------------------------- conv

func wire(d desc) []byte {
	var b bytes.Buffer
	b.WriteString(d.Method + " " + d.Target + " " + d.Proto + "\r\n")
	for _, kv := range d.Hdrs {
		b.Write(kv[0])
		b.WriteString(": ")
		b.Write(kv[1])
		b.WriteString("\r\n")
	}
	if d.Chunk {
		b.WriteString("Transfer-Encoding: chunked\r\n\r\n")
		body := d.Body
		for len(body) > 0 {
			n := min(len(body), 5)
			fmt.Fprintf(&b, "%x\r\n", n)
			b.Write(body[:n])
			b.WriteString("\r\n")
			body = body[n:]
		}
		b.WriteString("0\r\n\r\n")
	} else {
		b.WriteString("\r\n")
		b.Write(d.Body)
	}
	return b.Bytes()
}

func coqCobs(r *http.Request, err error) string {
	if err != nil {
		return hlib.None()
	}
	body, berr := io.ReadAll(r.Body)
	if berr != nil {
		return hlib.None()
	}
	return hlib.Some(hlib.App("Build_cobs", bss(r.Method), bss(r.RequestURI), bss(r.URL.String()), bss(r.Proto),
		hlib.Z(int64(r.ProtoMajor)), hlib.Z(int64(r.ProtoMinor)), bss(r.Host), coqHdr(r.Header, false), bs(body)))
}

func optStr(s string, err error) string {
	if err != nil {
		return hlib.None()
	}
	return hlib.Some(hlib.HexS(s))
}

func hasTokenCI(v, tok string) bool {
	for _, e := range strings.Split(v, ",") {
		if strings.EqualFold(strings.Trim(e, " \t"), tok) {
			return true
		}
	}
	return false
}

func runConv(d desc) hlib.Case {
	raw := wire(d)
	c := hlib.Case{Kind: "conv", Size: len(raw)}
	var req fasthttp.Request
	br := bufio.NewReader(bytes.NewReader(raw))
	if err := req.Read(br); err != nil {
		c.Kind = "conv-skip"
		c.Coq = "CSkip"
		return c
	}
	var ctx fasthttp.RequestCtx
	ctx.Init(&req, nil, nil)
	var ar http.Request
	if d.Reuse { // an http.Request that already holds another conversion: nothing of it may survive
		var req0 fasthttp.Request
		raw0 := "POST /previous?x=1 HTTP/1.1\r\nHost: Previous.Host\r\nX-Prev: leftover\r\nX-A: prev\r\nCookie: p=1\r\nContent-Type: prev/type\r\nTransfer-Encoding: chunked\r\n\r\n4\r\nprev\r\n0\r\n\r\n"
		if err := req0.Read(bufio.NewReader(strings.NewReader(raw0))); err == nil {
			var ctx0 fasthttp.RequestCtx
			ctx0.Init(&req0, nil, nil)
			fasthttpadaptor.ConvertRequest(&ctx0, &ar, true)
		}
	}
	aerr := fasthttpadaptor.ConvertRequest(&ctx, &ar, true)
	nr, nerr := http.ReadRequest(bufio.NewReader(bytes.NewReader(raw)))

	// reference URL strings / hosts from the standard library
	refParse, refAuth := hlib.None(), hlib.None()
	urlHost, authHost := "", ""
	if u, err := url.ParseRequestURI(d.Target); err == nil {
		refParse = hlib.Some(bss(u.String()))
		urlHost = u.Host
	}
	connectAuth := d.Method == "CONNECT" && !strings.HasPrefix(d.Target, "/")
	if u, err := url.ParseRequestURI("http://" + d.Target); err == nil {
		u.Scheme = ""
		refAuth = hlib.Some(bss(u.String()))
		authHost = u.Host
	}
	hs := make([]string, len(d.Hdrs))
	for i, kv := range d.Hdrs {
		hs[i] = hlib.Tuple(bs(kv[0]), bs(kv[1]))
	}
	if d.Chunk {
		// the chunked framing line is part of the request as the parsers see it
		hs = append(hs, hlib.Tuple(bss("Transfer-Encoding"), bss("chunked")))
	}
	q := hlib.App("Build_sreq", bss(d.Method), bss(d.Target), bss(d.Proto), hlib.List(hs), bs(d.Body), bss(urlHost), bss(authHost))
	c.Coq = hlib.App("CConv", hlib.N(uint64(d.Part)), bs(d.PName), q, refParse, refAuth, coqCobs(&ar, aerr), coqCobs(nr, nerr))

	// classification of the input for the known findings
	get := func(name string) (out []string) {
		for _, kv := range d.Hdrs {
			if strings.EqualFold(string(kv[0]), name) {
				out = append(out, string(kv[1]))
			}
		}
		return
	}
	effHost := urlHost
	if effHost == "" && len(get("Host")) > 0 {
		effHost = get("Host")[0]
	}
	if connectAuth {
		effHost = authHost
	}
	switch d.Part {
	case 0:
		if connectAuth {
			c.Key = "convert-connect-url"
		} else if d.Proto != "HTTP/1.1" && d.Proto != "HTTP/1.0" {
			c.Key = "convert-proto-version"
		}
	case 1:
		if connectAuth {
			c.Key = "convert-connect-url"
		} else if effHost != strings.ToLower(effHost) {
			c.Key = "convert-host-lowercased"
		}
	case 2:
		c.Key = "convert-host-in-header"
	case 3:
		switch string(d.PName) {
		case "Connection":
			closeTok := false
			for _, v := range get("Connection") {
				if hasTokenCI(v, "close") {
					closeTok = true
				}
			}
			if d.Proto != "HTTP/1.1" || closeTok || (d.Chunk && len(get("Content-Length")) > 0) {
				c.Key = "convert-connection-rewritten"
			}
		case "Cookie":
			if len(get("Cookie")) >= 2 {
				c.Key = "convert-cookie-merged"
			}
		case "Content-Length":
			if (d.Method != "GET" && d.Method != "HEAD" && len(get("Content-Length")) == 0 && !d.Chunk) || (d.Chunk && len(d.Body) == 0) {
				c.Key = "convert-content-length-synth"
			}
		case "Cache-Control":
			if len(get("Pragma")) > 0 {
				c.Key = "convert-pragma-cache-control"
			}
		}
	case 4:
		if len(get("Content-Type")) >= 2 || len(get("User-Agent")) >= 2 {
			c.Key = "convert-singleton-collapse"
		}
	}
	c.Sig = fmt.Sprintf("conv:p%d:%s:%s:%s:h%d:b%v:c%v:k%s:r%v", d.Part, d.PName, d.Method, d.Proto, min(len(d.Hdrs), 5), len(d.Body) > 0, d.Chunk, c.Key, d.Reuse)
	return c
}

// ---------------------------------------------------------------- generators

var hdrNames = []string{"X-A", "x-a", "X-b", "Cache-Control", "Vary", "Location", "Set-Cookie", "set-cookie", "Etag", "X_U.n~d", "X-A", "Link"}
var singletonNames = []string{"Content-Type", "content-type", "Content-Encoding", "Server"}
var hdrVals = []string{"1", "2", "a b", "  lead", "trail \t", "", "a\r\nb", "no-cache", "k=v; Path=/", "k=w", "k2=v2; HttpOnly", "/elsewhere", "Accept-Encoding", "W/\"x\""}
var ctVals = []string{"a/b", "application/json", "text/x-c; q=1", "image/x-v"}
var codes = []int{200, 200, 201, 204, 301, 304, 404, 500, 101, 299, 600, 999, 418}
var infoCodes = []int{100, 102, 103, 199, 150}

func randBody(r *rand.Rand) []byte {
	switch r.Intn(8) {
	case 0:
		return nil
	case 1:
		return hlib.Bytes(r, []byte("abc<>html \x00\xff\x89PNG\r\n"), 60)
	case 2:
		if r.Intn(12) != 0 {
			return hlib.Bytes(r, []byte("abcdefghijklmnopqrstuvwxyz"), 200)
		}
		b := make([]byte, 2050+r.Intn(100)) // larger than net/http's 2048-byte response buffer
		for i := range b {
			b[i] = byte('a' + i%26)
		}
		return b
	default:
		return hlib.Bytes(r, []byte("abcdefghijklmnopqrstuvwxyz <>{}\n"), 40)
	}
}

func hdrOp(r *rand.Rand) opd {
	name := hlib.Pick(r, hdrNames)
	val := hlib.Pick(r, hdrVals)
	if r.Intn(5) == 0 {
		name = hlib.Pick(r, singletonNames)
		switch strings.ToLower(name) {
		case "content-type":
			val = hlib.Pick(r, ctVals)
		case "content-encoding":
			val = hlib.Pick(r, []string{"gzip", "x-custom", "br"})
		default:
			val = hlib.Pick(r, []string{"srv/1", "my server"})
		}
		return opd{K: "set", N: []byte(name), V: []byte(val)}
	}
	switch r.Intn(6) {
	case 0:
		return opd{K: "del", N: []byte(name)}
	case 1, 2:
		return opd{K: "set", N: []byte(name), V: []byte(val)}
	default:
		return opd{K: "add", N: []byte(name), V: []byte(val)}
	}
}

// wellBehaved: all header work and the status before the first Write/Flush (what handlers are supposed to do)
func wellBehaved(r *rand.Rand) []opd {
	var p []opd
	for n := r.Intn(6); n > 0; n-- {
		p = append(p, hdrOp(r))
		if r.Intn(8) == 0 {
			p = append(p, opd{K: "wh", C: hlib.Pick(r, infoCodes)})
		}
	}
	explicit := r.Intn(2) == 0
	if explicit {
		p = append(p, opd{K: "wh", C: hlib.Pick(r, codes)})
	}
	bodyLen := 0
	var tail []opd
	for n := r.Intn(5); n > 0; n-- {
		switch r.Intn(5) {
		case 0:
			tail = append(tail, opd{K: "flush"})
		case 1:
			if explicit {
				tail = append(tail, opd{K: "wh", C: hlib.Pick(r, codes)}) // superfluous, ignored by both
			} else {
				tail = append(tail, opd{K: "wh", C: hlib.Pick(r, infoCodes)})
			}
		default:
			b := randBody(r)
			bodyLen += len(b)
			tail = append(tail, opd{K: "write", V: b})
		}
	}
	if !explicit && r.Intn(6) == 0 { // a correct Content-Length, set in time
		p = append(p, opd{K: "set", N: []byte("Content-Length"), V: []byte(strconv.Itoa(bodyLen))})
	}
	if r.Intn(12) == 0 {
		p = append(p, opd{K: "set", N: []byte(hlib.Pick(r, []string{"Date", "Connection"})), V: []byte(hlib.Pick(r, []string{"close", "Mon, 01 Jan 2001 00:00:00 GMT"}))})
	}
	return append(p, tail...)
}

// bigWrites: bodies that cross the buffer sizes on the way (net/http 2 KiB/4 KiB, adaptor pipe buffer 32 KiB)
func bigWrites(r *rand.Rand) []opd {
	var p []opd
	if r.Intn(2) == 0 {
		p = append(p, opd{K: "set", N: []byte("X-A"), V: []byte("big")})
	}
	for n := 1 + r.Intn(3); n > 0; n-- {
		sz := hlib.Pick(r, []int{2047, 2048, 2049, 4095, 4096, 4097, 32767, 32768, 32769, 70000})
		p = append(p, opd{K: "write", V: bytes.Repeat([]byte("a"), sz)})
		if r.Intn(3) == 0 {
			p = append(p, opd{K: "flush"})
		}
	}
	return p
}

func anyOrder(r *rand.Rand) []opd {
	var p []opd
	for n := 1 + r.Intn(7); n > 0; n-- {
		switch r.Intn(7) {
		case 0, 1, 2:
			p = append(p, hdrOp(r))
		case 3:
			p = append(p, opd{K: "wh", C: hlib.Pick(r, append(codes, infoCodes...))})
		case 4:
			p = append(p, opd{K: "flush"})
		default:
			p = append(p, opd{K: "write", V: randBody(r)})
		}
	}
	return p
}

var reqKinds = []string{"get11", "get11", "get11", "head11", "get10", "post11"}

func W(s string) opd       { return opd{K: "write", V: []byte(s)} }
func WH(c int) opd         { return opd{K: "wh", C: c} }
func Set(n, v string) opd  { return opd{K: "set", N: []byte(n), V: []byte(v)} }
func Add(n, v string) opd  { return opd{K: "add", N: []byte(n), V: []byte(v)} }
func Del(n string) opd     { return opd{K: "del", N: []byte(n)} }
func Fl() opd              { return opd{K: "flush"} }
func H(n, v string) [2]hlib.B { return [2]hlib.B{hlib.B(n), hlib.B(v)} }

func corpus() []desc {
	var c []desc
	progs := [][]opd{
		{},
		{WH(103), WH(201), W("hi")},                             // the fixed B22 witness
		{WH(100), WH(199), WH(500)},
		{WH(103)},
		{WH(101), W("abc")},
		{W("x"), WH(404)},                                       // late-writeheader
		{W(""), WH(404)},
		{W("x"), WH(204)},                                       // late status that also removes the body
		{W("x"), Set("X-A", "1")},                               // late-header-mutation
		{WH(202), Set("X-A", "1")},
		{Set("X-A", "1"), W("x"), Del("X-A")},
		{W("a"), Set("X-A", "1"), Fl(), W("b")},
		{Fl(), WH(404), Set("X-A", "1"), W("abc")},              // after Flush nothing leaks
		{Set("X-A", "1"), Fl(), Del("X-A"), W("abc"), Fl(), W("def")},
		{WH(204), W("abc")},
		{WH(204), Fl(), W("abc")},
		{WH(304), W("abc")},
		{Set("Content-Type", "a/b"), WH(304)},                   // content-type-on-304
		{Set("Content-Type", "a/b"), WH(200), W("zz")},
		{Add("Content-Type", "a/b"), Add("Content-Type", "application/json"), W("zz")}, // singleton-header-collapse
		{Add("Content-Encoding", "gzip"), Add("Content-Encoding", "br"), W("zz")},
		{Set("Server", ""), W("zz")},
		{Set("Content-Type", ""), W("zz")},
		{Add("Set-Cookie", "a=1"), Add("Set-Cookie", "a=2; Path=/x"), Add("X-B", "1"), Add("x-b", "2")},
		{Set("X-V", "  a  b \t"), Set("X-W", ""), Set("X-N", "a\r\nb")},
		{Set("Content-Length", "3"), W("abc")},
		{Set("Content-Length", "6"), W("abc"), Fl(), W("def")},
		{Set("Date", "x"), Set("Connection", "close"), W("abc")},
		{WH(999), W("abc")},
		{Add("X-A", "1"), Set("X-A", "2"), Add("X-A", "3"), Del("X-B"), WH(200), WH(500), W("a"), W("b")},
	}
	// the handler reads the request; long bodies; keep-alive; NewFastHTTPHandlerFunc
	E := opd{K: "echo"}
	big := func(n int) opd { return opd{K: "write", V: bytes.Repeat([]byte("a"), n)} }
	for _, rk := range []string{"get11", "head11", "get10", "post11"} {
		for part := 0; part < 3; part++ {
			c = append(c, desc{T: "resp", Part: part, Req: rk, Prog: []opd{E}},
				desc{T: "resp", Part: part, Req: rk, Prog: []opd{Set("X-A", "1"), Fl(), E, W("tail")}, Func: true})
		}
	}
	for _, p := range [][]opd{{big(32768)}, {big(32769), Fl(), big(70000)}, {Fl(), big(4097), big(2049)}, {big(2048), WH(500)}} {
		c = append(c, desc{T: "resp", Part: 2, Req: "get11", Prog: p}, desc{T: "resp", Part: 0, Req: "get10", Prog: p}, desc{T: "resp", Part: 2, Req: "get11", Prog: p, Prev: []opd{Fl(), big(5000)}})
	}
	for _, prev := range [][]opd{{}, {W("first")}, {Set("X-Prev", "p"), WH(404), W("nf")}, {W("a"), Fl(), W("b")}, {WH(204)}, {Set("X-Prev", "p"), Fl()}} {
		for part := 0; part < 3; part++ {
			c = append(c, desc{T: "resp", Part: part, Req: "get11", Prog: []opd{Set("X-A", "1"), W("second")}, Prev: prev},
				desc{T: "resp", Part: part, Req: "post11", Prog: []opd{WH(201), E, Fl(), W("x")}, Prev: prev, Func: true},
				desc{T: "resp", Part: part, Req: "head11", Prog: []opd{}, Prev: prev})
		}
	}
	for _, p := range progs {
		for _, rk := range []string{"get11", "head11", "get10"} {
			for part := 0; part < 3; part++ {
				c = append(c, desc{T: "resp", Part: part, Req: rk, Prog: p})
			}
		}
	}
	convs := []desc{
		{Method: "GET", Target: "/a?b=c", Proto: "HTTP/1.0", Hdrs: [][2]hlib.B{H("Host", "ExAmple.COM"), H("X-A", "1")}}, // the B23 witness
		{Method: "POST", Target: "/a", Proto: "HTTP/1.1", Hdrs: [][2]hlib.B{H("Host", "ExAmple.COM:8080"), H("Content-Length", "3")}, Body: []byte("abc")},
		{Method: "GET", Target: "/a%20b/../c?x=%41&y", Proto: "HTTP/1.1", Hdrs: [][2]hlib.B{H("Host", "h"), H("X-A", "1"), H("x-a", "2"), H("Cookie", "a=1"), H("Cookie", "b=2"), H("User-Agent", "ua"), H("Content-Type", "t/t")}},
		{Method: "GET", Target: "http://Other.Host:81/p?q", Proto: "HTTP/1.1", Hdrs: [][2]hlib.B{H("Host", "h")}},
		{Method: "POST", Target: "/c", Proto: "HTTP/1.1", Hdrs: [][2]hlib.B{H("Host", "h")}, Body: []byte("abcdefg"), Chunk: true},
		{Method: "POST", Target: "/c", Proto: "HTTP/1.1", Hdrs: [][2]hlib.B{H("Host", "h")}, Chunk: true},
		{Method: "POST", Target: "/c", Proto: "HTTP/1.1", Hdrs: [][2]hlib.B{H("Host", "h")}},
		{Method: "GET", Target: "/", Proto: "HTTP/1.1", Hdrs: [][2]hlib.B{H("Host", "h"), H("Connection", "close")}},
		{Method: "GET", Target: "/", Proto: "HTTP/1.1", Hdrs: [][2]hlib.B{H("Host", "h"), H("Connection", "Close")}},
		{Method: "GET", Target: "/", Proto: "HTTP/1.1", Hdrs: [][2]hlib.B{H("Host", "h"), H("Connection", "keep-alive, Upgrade"), H("Upgrade", "x")}},
		{Method: "GET", Target: "/", Proto: "HTTP/1.0", Hdrs: [][2]hlib.B{H("Host", "h"), H("Connection", "keep-alive")}},
		{Method: "GET", Target: "/", Proto: "HTTP/1.1", Hdrs: [][2]hlib.B{H("Host", "h"), H("Connection", "close"), H("Connection", "foo")}},
		{Method: "GET", Target: "/", Proto: "HTTP/1.1", Hdrs: [][2]hlib.B{H("Host", "h"), H("Connection", "keep-alive"), H("Connection", "upgrade, Close")}},
		{Method: "GET", Target: "/", Proto: "HTTP/1.0", Hdrs: [][2]hlib.B{H("Host", "h"), H("Connection", "foo"), H("Connection", "keep-alive")}},
		{Method: "OPTIONS", Target: "*", Proto: "HTTP/1.1", Hdrs: [][2]hlib.B{H("Host", "h")}},
		{Method: "CONNECT", Target: "h:443", Proto: "HTTP/1.1", Hdrs: [][2]hlib.B{H("Host", "h:443")}},
		{Method: "GET", Target: "/x", Proto: "HTTP/2.0", Hdrs: [][2]hlib.B{H("Host", "h")}},
		{Method: "GET", Target: "/x", Proto: "HTTP/1.2", Hdrs: [][2]hlib.B{H("Host", "h")}},
		{Method: "GET", Target: "/%zz", Proto: "HTTP/1.1", Hdrs: [][2]hlib.B{H("Host", "h")}},
		{Method: "GET", Target: "/x", Proto: "HTTP/1.1", Hdrs: [][2]hlib.B{H("Host", "h"), H("Pragma", "no-cache")}},
		{Method: "GET", Target: "/x", Proto: "HTTP/1.1", Hdrs: [][2]hlib.B{H("Host", "h"), H("Content-Type", "a/b"), H("Content-Type", "c/d")}},
		{Method: "GET", Target: "/x", Proto: "HTTP/1.1", Hdrs: [][2]hlib.B{H("host", "h"), H("Accept-Encoding", "gzip"), H("Accept-Encoding", "br"), H("X-Empty", "")}},
	}
	for _, d := range convs {
		d.T = "conv"
		d.Reuse = len(d.Hdrs)%2 == 0
		for part := 0; part <= 5; part++ {
			if part == 3 {
				for _, pn := range []string{"Connection", "Cookie", "Content-Length", "Cache-Control"} {
					e := d
					e.Part, e.PName = 3, []byte(pn)
					c = append(c, e)
				}
				continue
			}
			e := d
			e.Part = part
			c = append(c, e)
		}
	}
	return c
}

var convNames = []string{"X-A", "x-a", "X-B", "Accept", "accept-encoding", "Accept-Encoding", "Referer", "X_U", "Authorization", "Cache-Control", "Upgrade"}
var convVals = []string{"1", "2", "a b", "gzip, br", "*/*", "", "Basic Zm9v", "max-age=0", "h2c"}
var hosts = []string{"h", "example.com", "ExAmple.COM", "Example.com:8080", "[::1]:80", "10.0.0.1", "a.b.c:1"}
var targets = []string{"/", "/a/b", "/a%20b/../c?x=%41&y", "/p?q=1&q=2", "//x//y", "/x;p=1?y#z", "http://Other.Host:81/p?q", "http://lower.host/p", "/%zz", "/~u/%7Ev"}

func genConv(r *rand.Rand) desc {
	d := desc{T: "conv", Proto: "HTTP/1.1", Method: "GET"}
	d.Method = hlib.Pick(r, []string{"GET", "GET", "GET", "HEAD", "POST", "PUT", "DELETE", "OPTIONS", "PATCH", "get"})
	d.Target = hlib.Pick(r, targets)
	switch r.Intn(12) {
	case 0, 1:
		d.Proto = "HTTP/1.0"
	case 2:
		d.Proto = hlib.Pick(r, []string{"HTTP/1.2", "HTTP/2.0", "HTTP/0.9", "HTTP/3.1"})
	}
	if r.Intn(25) == 0 {
		d.Method, d.Target = "CONNECT", hlib.Pick(r, []string{"h:443", "Example.com:80"})
	}
	if d.Method == "OPTIONS" && r.Intn(2) == 0 {
		d.Target = "*"
	}
	hostName := "Host"
	if r.Intn(6) == 0 {
		hostName = hlib.Pick(r, []string{"host", "HOST"})
	}
	var hs [][2]hlib.B
	hs = append(hs, H(hostName, hlib.Pick(r, hosts)))
	for n := r.Intn(5); n > 0; n-- {
		hs = append(hs, H(hlib.Pick(r, convNames), hlib.Pick(r, convVals)))
	}
	if r.Intn(4) == 0 {
		hs = append(hs, H(hlib.Pick(r, []string{"User-Agent", "user-agent"}), "ua/1.0 (x)"))
	}
	if r.Intn(4) == 0 {
		hs = append(hs, H("Content-Type", hlib.Pick(r, ctVals)))
	}
	for n := r.Intn(6) / 3; n >= 0 && r.Intn(3) == 0; n-- {
		hs = append(hs, H(hlib.Pick(r, []string{"Cookie", "cookie"}), hlib.Pick(r, []string{"a=1", "b=2; c=3", "sid=xyz"})))
	}
	for n := 1 + r.Intn(4)/3; n > 0 && r.Intn(3) == 0; n-- {
		hs = append(hs, H("Connection", hlib.Pick(r, []string{"close", "keep-alive", "keep-alive, Upgrade", "Close", "upgrade", "keep-alive, close", "foo ,close", "keep-alive,\tclose", "keep-alive\t, Upgrade"})))
	}
	if r.Intn(30) == 0 {
		hs = append(hs, H("Pragma", "no-cache"))
	}
	r.Shuffle(len(hs), func(i, j int) { hs[i], hs[j] = hs[j], hs[i] })
	hasBody := d.Method != "GET" && d.Method != "HEAD" && d.Method != "get" && d.Method != "CONNECT" && d.Method != "OPTIONS" && r.Intn(3) != 0
	if d.Method == "GET" && r.Intn(10) == 0 {
		hasBody = true
	}
	if hasBody {
		d.Body = hlib.Bytes(r, []byte("abcdef=&%\x00\xff\r\n"), 24)
		if d.Proto == "HTTP/1.1" && r.Intn(3) == 0 {
			d.Chunk = true
		} else {
			hs = append(hs, H(hlib.Pick(r, []string{"Content-Length", "content-length"}), strconv.Itoa(len(d.Body))))
		}
	}
	d.Hdrs = hs
	d.Reuse = r.Intn(4) == 0
	d.Part = r.Intn(6)
	if d.Part == 3 {
		d.PName = []byte(hlib.Pick(r, []string{"Connection", "Cookie", "Content-Length", "Cache-Control"}))
	}
	return d
}

func gen(r *rand.Rand, i int) desc {
	if r.Intn(10) < 3 {
		return genConv(r)
	}
	d := desc{T: "resp", Part: r.Intn(3), Req: hlib.Pick(r, reqKinds), Func: r.Intn(4) == 0}
	switch k := r.Intn(25); {
	case k == 0:
		d.Prog = bigWrites(r)
	case k < 17:
		d.Prog = wellBehaved(r)
	default:
		d.Prog = anyOrder(r)
	}
	hasCL := false
	for _, o := range d.Prog {
		if strings.EqualFold(string(o.N), "Content-Length") {
			hasCL = true // the declared length must stay the body's length
		}
	}
	if r.Intn(6) == 0 && !hasCL { // the handler looks at the request
		pos := r.Intn(len(d.Prog) + 1)
		d.Prog = append(d.Prog[:pos:pos], append([]opd{{K: "echo"}}, d.Prog[pos:]...)...)
	}
	if r.Intn(5) == 0 && d.Req != "get10" { // second exchange on a kept-alive connection
		if r.Intn(2) == 0 {
			d.Prev = wellBehaved(r)
		} else {
			d.Prev = anyOrder(r)
		}
		if d.Prev == nil {
			d.Prev = []opd{}
		}
	}
	return d
}

func run(d desc) hlib.Case {
	if d.T == "conv" {
		return runConv(d)
	}
	return runResp(d)
}

func main() {
	startServers()
	hlib.Main(hlib.Prop[desc]{
		ID:       "C36",
		Imports:  "From FH Require Import Model.Base Spec.NetHttpRW Check.C36Check.",
		CaseType: "c36case",
		CorrOK:   "corr_ok",
		PropOK:   "prop_ok",
		Rule: "resp: handler programs over WriteHeader/Header().Add/Set/Del/Write/Flush (70% with all header work before the first Write/Flush, 30% in any order; " +
			"informational and body-less statuses, repeated and special header names, bodies 0-3000 B) run under fasthttpadaptor on a real fasthttp.Server and under a real " +
			"net/http.Server for GET/HEAD/POST, HTTP/1.0 and 1.1; conv: structured requests (methods, origin/absolute/asterisk/authority targets, protocol versions, mixed-case " +
			"and repeated headers, Cookie/Connection/Content-Length/chunked bodies) through ConvertRequest and http.ReadRequest; each case checks one part (status / fields / body; " +
			"request line / Host / header Host / one named header / other headers / body); a case is non-trivial per (request kind, part, status, mode, finding class)",
		Corpus:   corpus,
		Gen:      gen,
		Run:      run,
		ShardLen: 200,
	})
}
