// Correspondence harness for C38 (PipelineClient deadline calls return on time with bounded queues).
//
// Directed cases: a scenario of operations (call with deadline / Do / server answers k / server closes / time passes / server answers
// everything) is executed on a real PipelineClient talking to a scripted in-memory server; logical ticks are TICK long, operations are
// executed well inside a tick and followed by a settling pause, deadlines fall on tick boundaries.  Observed: PendingRequests() after
// every operation; per call the error class, whether the server received its (unique) path, how late after its deadline it returned,
// whether the response body was the echo of its own path.  The Coq side replays the scenario on the transition system.
// Stress cases: bursts of concurrent DoTimeout/Do calls against stalling / slow / closing / non-reading servers; only the property
// oracle judges them.
package main

import (
	"bufio"
	"errors"
	"fmt"
	"math/rand"
	"net"
	"os"
	"sort"
	"strconv"
	"strings"
	"sync"
	"time"

	"github.com/valyala/fasthttp"
	"github.com/valyala/fasthttp/fasthttputil"
	"verif/harness/hlib"
)

const (
	tick = 200 * time.Millisecond
)

type opD struct {
	K string `json:"k"`           // call | do | reply | close | adv | finish | refuse | accept
	N int    `json:"n,omitempty"` // call: deadline tick; reply: count; adv: tick
}

type desc struct {
	Op    string `json:"op"` // dir | stress | cap
	Cap   int    `json:"cap,omitempty"`
	Ops   []opD  `json:"ops,omitempty"`
	Conns int    `json:"conns,omitempty"`
	Srv   string `json:"srv,omitempty"`   // stress: stall | slow | closemid | noread | normal | flaky
	Calls []int  `json:"calls,omitempty"` // stress: timeout in ms per call, 0 = Do
	Batch int    `json:"batch,omitempty"` // MaxBatchDelay in ms
	RT    int    `json:"rt,omitempty"`    // stress: ReadTimeout ms (a timeout error makes pipelineWorker sleep 1 s before redialling)
	WT    int    `json:"wt,omitempty"`    // stress: WriteTimeout ms
	Idle  int    `json:"idle,omitempty"`  // stress: MaxIdleConnDuration ms (idle retirement and re-creation of the channels)
	Gap   int    `json:"gap,omitempty"`   // stress: pause in ms in the middle of the burst
	Flav  []int  `json:"flav,omitempty"`  // per call flavour: 0 GET, 1 nil response object, 2 POST with a body, 3 HEAD
	Seed  int64  `json:"seed,omitempty"`
	MaxP  int    `json:"maxp,omitempty"` // cap case: MaxPendingRequests

	fut *future
}

type future struct {
	done chan struct{}
	c    hlib.Case
}

// ---- scheduling-latency canary -------------------------------------------------------------------
// A goroutine that sleeps 2 ms in a loop and records by how much every wake-up was late.  The property allows "scheduling slack":
// what the machine imposed on a trivial timer during a run is measured here and reported with the case.
type canarySample struct {
	at   time.Time
	over time.Duration
}

var (
	canaryMu      sync.Mutex
	canarySamples []canarySample
)

func startCanary() {
	go func() {
		for {
			t := time.Now()
			time.Sleep(2 * time.Millisecond)
			now := time.Now()
			over := now.Sub(t) - 2*time.Millisecond
			if over > time.Millisecond {
				canaryMu.Lock()
				canarySamples = append(canarySamples, canarySample{now, over})
				if len(canarySamples) > 1<<16 {
					canarySamples = canarySamples[1<<15:]
				}
				canaryMu.Unlock()
			}
		}
	}()
}

// maxStall: the largest wake-up lateness observed in [from, to] (a stall that started before `from` counts when it ended inside).
func maxStall(from, to time.Time) time.Duration {
	canaryMu.Lock()
	defer canaryMu.Unlock()
	var m time.Duration
	for i := len(canarySamples) - 1; i >= 0; i-- {
		c := canarySamples[i]
		if c.at.Before(from) {
			break
		}
		if !c.at.After(to.Add(5*time.Millisecond)) && c.over > m {
			m = c.over
		}
	}
	return m
}

type nullLogger struct{}

func (nullLogger) Printf(string, ...any) {}

// ---- scripted server ---------------------------------------------------------------------------

type sconn struct {
	c       net.Conn
	credits int
	closed  bool
}

type server struct {
	mu    sync.Mutex
	cond  *sync.Cond
	seen  map[string]bool
	cur   *sconn
	auto  bool
	conns []*sconn
	// stress behaviour
	mode    string
	r       *rand.Rand
	noread  bool
	served  int
	stopped bool
	refuse  bool // dial attempts fail
}

func newServer(mode string, seed int64) *server {
	s := &server{seen: map[string]bool{}, mode: mode, r: rand.New(rand.NewSource(seed))}
	s.cond = sync.NewCond(&s.mu)
	s.noread = mode == "noread"
	return s
}

func (s *server) dial(addr string) (net.Conn, error) {
	s.mu.Lock()
	refuse := s.refuse
	s.mu.Unlock()
	if refuse {
		time.Sleep(2 * time.Millisecond) // the worker redials in a tight loop: keep it from spinning
		return nil, errors.New("verif: connection refused")
	}
	pc := fasthttputil.NewPipeConns()
	sc := &sconn{c: pc.Conn2()}
	s.mu.Lock()
	s.cur = sc
	s.conns = append(s.conns, sc)
	s.mu.Unlock()
	go s.serve(sc)
	return pc.Conn1(), nil
}

func (s *server) serve(sc *sconn) {
	// wait while the server does not read at all
	s.mu.Lock()
	for s.noread && !s.auto && !sc.closed {
		s.cond.Wait()
	}
	s.mu.Unlock()
	paths := make(chan string, 4096)
	go func() { // reader: receives requests as fast as they come
		br := bufio.NewReader(sc.c)
		var req fasthttp.Request
		for {
			if err := req.Read(br); err != nil {
				close(paths)
				return
			}
			p := string(req.URI().Path())
			if req.Header.IsHead() {
				p = "H" + p
			}
			s.mu.Lock()
			s.seen[strings.TrimPrefix(p, "H")] = true
			s.mu.Unlock()
			paths <- p
		}
	}()
	for p := range paths {
		// wait for permission to answer
		s.mu.Lock()
		for sc.credits == 0 && !s.auto && !sc.closed {
			s.cond.Wait()
		}
		if sc.closed {
			s.mu.Unlock()
			return
		}
		if !s.auto {
			sc.credits--
		}
		mode := s.mode
		s.served++
		served := s.served
		var delay time.Duration
		if mode == "slow" && !s.auto {
			delay = time.Duration(20+s.r.Intn(60)) * time.Millisecond
		}
		s.mu.Unlock()
		if delay > 0 {
			time.Sleep(delay)
		}
		resp := "HTTP/1.1 200 OK\r\nContent-Length: " + strconv.Itoa(len(p)) + "\r\n\r\n" + p
		if strings.HasPrefix(p, "H") { // HEAD: headers only
			resp = "HTTP/1.1 200 OK\r\nContent-Length: " + strconv.Itoa(len(p)-1) + "\r\n\r\n"
		}
		if mode == "garbage" && served%2 == 0 {
			resp = "HTTP/1.1 2x0 what\r\nContent-Length: nope\r\n\r\n"
		}
		if (mode == "closemid" && served%3 == 0) || (mode == "flaky" && served%3 == 0) {
			if mode == "closemid" {
				sc.c.Write([]byte(resp[:len(resp)-2])) //nolint:errcheck
			}
			s.closeConn(sc)
			return
		}
		if _, err := sc.c.Write([]byte(resp)); err != nil {
			return
		}
	}
}

func (s *server) closeConn(sc *sconn) {
	s.mu.Lock()
	sc.closed = true
	s.cond.Broadcast()
	s.mu.Unlock()
	sc.c.Close()
}

func (s *server) reply(k int) {
	s.mu.Lock()
	if s.cur != nil && !s.cur.closed {
		s.cur.credits += k
	}
	s.cond.Broadcast()
	s.mu.Unlock()
}

func (s *server) closeCur() {
	s.mu.Lock()
	sc := s.cur
	s.mu.Unlock()
	if sc != nil {
		s.closeConn(sc)
	}
}

func (s *server) setRefuse(b bool) {
	s.mu.Lock()
	s.refuse = b
	s.mu.Unlock()
}

func (s *server) finish() {
	s.mu.Lock()
	s.auto = true
	s.refuse = false
	s.cond.Broadcast()
	s.mu.Unlock()
}

func (s *server) shutdown() {
	s.mu.Lock()
	cs := append([]*sconn(nil), s.conns...)
	s.mu.Unlock()
	for _, sc := range cs {
		s.closeConn(sc)
	}
}

func (s *server) saw(p string) bool {
	s.mu.Lock()
	defer s.mu.Unlock()
	return s.seen[p]
}

// ---- calls ---------------------------------------------------------------------------------------

type callRes struct {
	hasDeadline bool
	deadline    time.Time
	path        string
	class       int // 0 resp, 1 timeout, 2 overflow, 3 conn error, 8 never returned
	echo        bool
	ret         time.Time
	start       time.Time // when the call was made (a deadline already in the past means: return at once)
	done        chan struct{}
}

func classify(err error) int {
	switch {
	case err == nil:
		return 0
	case errors.Is(err, fasthttp.ErrTimeout):
		return 1
	case errors.Is(err, fasthttp.ErrPipelineOverflow):
		return 2
	default:
		return 3
	}
}

func startCall(pc *fasthttp.PipelineClient, path string, hasDeadline bool, deadline time.Time, flav ...int) *callRes {
	fl := 0
	if len(flav) > 0 {
		fl = flav[0]
	}
	cr := &callRes{hasDeadline: hasDeadline, deadline: deadline, path: path, class: 8, done: make(chan struct{}), start: time.Now()}
	go func() {
		req := fasthttp.AcquireRequest()
		resp := fasthttp.AcquireResponse()
		req.SetRequestURI("http://h.test" + path)
		switch fl {
		case 1:
			resp = nil // "Response is ignored if resp is nil"
		case 2:
			req.Header.SetMethod("POST")
			req.SetBodyString("body-of-" + path)
		case 3:
			req.Header.SetMethod("HEAD")
		}
		var err error
		if hasDeadline {
			err = pc.DoDeadline(req, resp, deadline)
		} else {
			err = pc.Do(req, resp)
		}
		cr.ret = time.Now()
		cr.class = classify(err)
		switch fl {
		case 1, 3:
			cr.echo = err == nil // no body to compare
		default:
			cr.echo = err == nil && string(resp.Body()) == path
		}
		close(cr.done)
	}()
	return cr
}

func (cr *callRes) wait(limit time.Time) bool {
	d := time.Until(limit)
	if d < 0 {
		d = 0
	}
	select {
	case <-cr.done:
		return true
	default:
	}
	select {
	case <-cr.done:
		return true
	case <-time.After(d):
		return false
	}
}

func obsTerm(cr *callRes, returned bool, seen bool) (string, string) {
	late := int64(0)
	class := cr.class
	if !returned {
		class = 8
		late = 5000
	} else if cr.hasDeadline {
		ref := cr.deadline
		if cr.start.After(ref) {
			ref = cr.start
		}
		late = cr.ret.Sub(ref).Milliseconds()
		if late < 0 {
			late = 0
		}
	}
	echo := returned && cr.echo
	t := fmt.Sprintf("{| co_deadline := %s; co_class := %s; co_seen := %s; co_late := %s; co_echo := %s |}",
		hlib.Bool(cr.hasDeadline), hlib.N(uint64(class)), hlib.Bool(seen), hlib.N(uint64(late)), hlib.Bool(echo))
	return t, fmt.Sprintf("%d%v", class, seen)
}

// ---- directed scenarios ------------------------------------------------------------------------------

type dirRun struct {
	valid bool
	pend  []int
	key   string // projected observable for the stability test
	terms []string
	sig   string
	stall time.Duration
	why   string
}

func (s *server) seenCount() int {
	s.mu.Lock()
	defer s.mu.Unlock()
	return len(s.seen) + 1000*len(s.conns)
}

// quiesce waits until the externally visible state (PendingRequests, calls returned, requests/connections seen by the server)
// has not changed for 4 consecutive polls 3 ms apart without a scheduling stall in between; false when that takes too long.
func quiesce(pc *fasthttp.PipelineClient, srv *server, calls []*callRes, minWait time.Duration) bool {
	time.Sleep(minWait)
	start := time.Now()
	stable := 0
	last := ""
	for time.Since(start) < 90*time.Millisecond {
		t := time.Now()
		time.Sleep(3 * time.Millisecond)
		ret := 0
		for _, c := range calls {
			select {
			case <-c.done:
				ret++
			default:
			}
		}
		cur := fmt.Sprint(pc.PendingRequests(), ret, srv.seenCount())
		if cur == last && maxStall(t, time.Now()) < 3*time.Millisecond {
			stable++
			if stable >= 4 {
				return true
			}
		} else {
			stable = 0
			last = cur
		}
	}
	return false
}

func runDirOnce(d desc) dirRun {
	srv := newServer("script", 1)
	pc := &fasthttp.PipelineClient{Addr: "h.test:80", Dial: srv.dial, MaxPendingRequests: d.Cap, Logger: nullLogger{},
		MaxBatchDelay: time.Duration(d.Batch) * time.Millisecond}
	var out dirRun
	out.valid = true
	t0 := time.Now()
	cur := 0
	var calls []*callRes
	extra := 2*time.Millisecond + time.Duration(d.Batch)*time.Millisecond
	dflav := func(i int) int {
		if i < len(d.Flav) {
			return d.Flav[i]
		}
		return 0
	}
	for _, o := range d.Ops {
		if o.K != "adv" {
			// still comfortably inside the current tick?
			if time.Now().After(t0.Add(time.Duration(cur+1)*tick - 45*time.Millisecond)) {
				out.valid = false
				out.why += "late-start;"
			}
		}
		switch o.K {
		case "call":
			calls = append(calls, startCall(pc, "/c"+strconv.Itoa(len(calls)), true, t0.Add(time.Duration(o.N)*tick), dflav(len(calls))))
		case "do":
			calls = append(calls, startCall(pc, "/c"+strconv.Itoa(len(calls)), false, time.Time{}, dflav(len(calls))))
		case "reply":
			srv.reply(o.N)
		case "close":
			srv.closeCur()
		case "finish":
			srv.finish()
		case "refuse":
			srv.setRefuse(true)
		case "accept":
			srv.setRefuse(false)
		case "adv":
			if o.N > cur {
				cur = o.N
			}
			time.Sleep(time.Until(t0.Add(time.Duration(cur)*tick + 10*time.Millisecond)))
		}
		if !quiesce(pc, srv, calls, extra) {
			out.valid = false
			out.why += "noquiesce-" + o.K + ";"
		}
		if time.Now().After(t0.Add(time.Duration(cur+1)*tick - 15*time.Millisecond)) {
			out.valid = false
			out.why += "late-end;"
		}
		out.pend = append(out.pend, pc.PendingRequests())
	}
	limit := time.Now().Add(2 * time.Second)
	var keys []string
	stall := maxStall(t0, time.Now())
	for _, cr := range calls {
		returned := cr.wait(limit)
		if !cr.hasDeadline && !returned {
			// a Do call may legitimately still be waiting; it is outside the property
			returned = false
		}
		t, k := obsTerm(cr, returned, srv.saw(cr.path))
		out.terms = append(out.terms, t)
		keys = append(keys, k)
	}
	srv.shutdown()
	out.stall = stall
	out.key = fmt.Sprint(out.pend) + strings.Join(keys, ",")
	out.sig = strings.Join(keys, ",")
	return out
}

func coqOps(ops []opD) string {
	var it []string
	for _, o := range ops {
		switch o.K {
		case "call":
			it = append(it, hlib.App("OCall", hlib.Some(hlib.N(uint64(o.N)))))
		case "do":
			it = append(it, "(OCall None)")
		case "reply":
			it = append(it, hlib.App("OReply", hlib.Nat(o.N)))
		case "close":
			it = append(it, "OClose")
		case "adv":
			it = append(it, hlib.App("OAdvance", hlib.N(uint64(o.N))))
		case "finish":
			it = append(it, "OFinish")
		case "refuse":
			it = append(it, "ORefuse")
		case "accept":
			it = append(it, "OAccept")
		}
	}
	return hlib.List(it)
}

func runDir(d desc) hlib.Case {
	// run until two executions agree on the projected observable (timing noise is not an observable)
	var runs []dirRun
	var pick *dirRun
	for try := 0; try < 6 && pick == nil; try++ {
		r := runDirOnce(d)
		if os.Getenv("C38_DEBUG") != "" {
			fmt.Fprintln(os.Stderr, "dirrun", try, r.valid, r.why, r.key)
		}
		if !r.valid {
			continue
		}
		for i := range runs {
			if runs[i].key == r.key {
				pick = &runs[i]
			}
		}
		runs = append(runs, r)
	}
	if pick == nil {
		// unstable under the current machine load: no observation to compare
		return hlib.Case{Kind: "dir-unstable", Coq: "(C38Cap 1%Z 1%N 1%N)"}
	}
	var pend []string
	for _, p := range pick.pend {
		pend = append(pend, hlib.N(uint64(p)))
	}
	return hlib.Case{Kind: "dir", Size: len(d.Ops), Sig: fmt.Sprintf("dir%d:%s", d.Cap, pick.sig),
		Coq: hlib.App("C38Dir", hlib.Nat(d.Cap), coqOps(d.Ops), hlib.List(pend), hlib.N(uint64(pick.stall.Milliseconds()+1)), hlib.List(pick.terms))}
}

// ---- stress --------------------------------------------------------------------------------------------

func runStressOnce(d desc) (hlib.Case, time.Duration) {
	tStart := time.Now()
	srv := newServer(d.Srv, d.Seed)
	pc := &fasthttp.PipelineClient{Addr: "h.test:80", Dial: func(a string) (net.Conn, error) {
		c, err := srv.dial(a)
		if d.Srv != "stall" && d.Srv != "noread" {
			srv.reply(1 << 20)
		}
		return c, err
	}, MaxPendingRequests: d.Cap, MaxConns: d.Conns, Logger: nullLogger{}, MaxBatchDelay: time.Duration(d.Batch) * time.Millisecond,
		ReadTimeout: time.Duration(d.RT) * time.Millisecond, WriteTimeout: time.Duration(d.WT) * time.Millisecond,
		MaxIdleConnDuration: time.Duration(d.Idle) * time.Millisecond}
	if d.Srv == "refuse" {
		srv.setRefuse(true)
	}
	flav := func(i int) int {
		if i < len(d.Flav) {
			return d.Flav[i]
		}
		return 0
	}
	r := rand.New(rand.NewSource(d.Seed))
	var calls []*callRes
	maxpend := 0
	stop := make(chan struct{})
	var wg sync.WaitGroup
	wg.Add(1)
	go func() {
		defer wg.Done()
		for {
			select {
			case <-stop:
				return
			default:
			}
			if p := pc.PendingRequests(); p > maxpend {
				maxpend = p
			}
			time.Sleep(3 * time.Millisecond)
		}
	}()
	maxT := 0
	for i, ms := range d.Calls {
		if d.Gap > 0 && i == len(d.Calls)/2 {
			time.Sleep(time.Duration(d.Gap) * time.Millisecond) // idle retirement / reconnect throttling happen here
		}
		switch {
		case ms > 0:
			calls = append(calls, startCall(pc, "/s"+strconv.Itoa(i), true, time.Now().Add(time.Duration(ms)*time.Millisecond), flav(i)))
		case ms < 0: // deadline already in the past
			calls = append(calls, startCall(pc, "/s"+strconv.Itoa(i), true, time.Now().Add(time.Duration(ms)*time.Millisecond), flav(i)))
		default:
			calls = append(calls, startCall(pc, "/s"+strconv.Itoa(i), false, time.Time{}, flav(i)))
		}
		if ms > maxT {
			maxT = ms
		}
		if r.Intn(3) == 0 {
			time.Sleep(time.Duration(r.Intn(4)) * time.Millisecond)
		}
	}
	// let every deadline pass, then release the Do callers
	limit := time.Now().Add(time.Duration(maxT)*time.Millisecond + 2*time.Second)
	time.Sleep(time.Duration(maxT+300) * time.Millisecond)
	srv.mu.Lock()
	srv.mode = "normal"
	srv.mu.Unlock()
	srv.finish()
	var terms, keys []string
	cls := map[int]int{}
	for _, cr := range calls {
		returned := cr.wait(limit)
		t, k := obsTerm(cr, returned, srv.saw(cr.path))
		terms = append(terms, t)
		keys = append(keys, k)
		cls[cr.class]++
	}
	close(stop)
	wg.Wait()
	srv.shutdown()
	conns := d.Conns
	if conns <= 0 {
		conns = 1
	}
	var ck []string
	for k, v := range cls {
		ck = append(ck, fmt.Sprintf("%d:%d", k, v))
	}
	sort.Strings(ck)
	stall := maxStall(tStart, time.Now())
	return hlib.Case{Kind: "stress-" + d.Srv, Size: len(d.Calls), Sig: fmt.Sprintf("st%s%d/%d:%s", d.Srv, d.Cap, conns, strings.Join(ck, ",")),
		Coq: hlib.App("C38Stress", hlib.Nat(d.Cap), hlib.Nat(conns), hlib.N(uint64(maxpend)), hlib.N(uint64(stall.Milliseconds()+1)), hlib.List(terms))}, stall
}

// a run disturbed by a long scheduling stall measures the machine, not the client: repeat it (the stall is reported anyway)
func runStress(d desc) hlib.Case {
	var c hlib.Case
	for try := 0; try < 4; try++ {
		var stall time.Duration
		c, stall = runStressOnce(d)
		if stall < 40*time.Millisecond {
			break
		}
	}
	return c
}

func runCap(d desc) hlib.Case {
	srv := newServer("normal", 1)
	pc := &fasthttp.PipelineClient{Addr: "h.test:80", Dial: func(a string) (net.Conn, error) {
		c, err := srv.dial(a)
		srv.reply(1 << 20)
		return c, err
	}, MaxPendingRequests: d.MaxP, Logger: nullLogger{}}
	cr := startCall(pc, "/cap", true, time.Now().Add(2*time.Second))
	cr.wait(time.Now().Add(3 * time.Second))
	w, r := fasthttp.VerifPipelineQueueCaps(pc)
	srv.shutdown()
	if w < 0 {
		w, r = 0, 0
	}
	return hlib.Case{Kind: "cap", Sig: "cap" + strconv.Itoa(d.MaxP),
		Coq: hlib.App("C38Cap", hlib.Z(int64(d.MaxP)), hlib.N(uint64(w)), hlib.N(uint64(r)))}
}

// ---- generators -------------------------------------------------------------------------------------------

func genDir(r *rand.Rand) desc {
	d := desc{Op: "dir", Cap: hlib.Pick(r, []int{1, 1, 2, 2, 4})}
	if r.Intn(6) == 0 {
		d.Batch = 3
	}
	cur := 0
	inTick := 0
	maxDl := 1
	n := 5 + r.Intn(9)
	calls := 0
	style := r.Intn(4) // 0: stalled server, saturate; 1: answering; 2: closes; 3: mixed
	for i := 0; i < n; i++ {
		if inTick >= 4 || (inTick > 0 && r.Intn(5) == 0) {
			cur++
			inTick = 0
			d.Ops = append(d.Ops, opD{K: "adv", N: cur})
			continue
		}
		inTick++
		x := r.Intn(10)
		switch {
		case x < 5 || (style == 0 && x < 7):
			if calls >= 12 {
				d.Ops = append(d.Ops, opD{K: "reply", N: 1})
				continue
			}
			dl := cur + 1 + r.Intn(2)
			if r.Intn(12) == 0 {
				dl = cur - r.Intn(2) // already reached when the call is made: ErrTimeout at once
				if dl < 0 {
					dl = 0
				}
			}
			if dl > maxDl {
				maxDl = dl
			}
			d.Ops = append(d.Ops, opD{K: "call", N: dl})
			calls++
		case x == 5 || x == 6:
			if calls >= 12 {
				continue
			}
			d.Ops = append(d.Ops, opD{K: "do"})
			calls++
		case x == 7 || (style == 1 && x == 8):
			d.Ops = append(d.Ops, opD{K: "reply", N: 1 + r.Intn(3)})
		case x == 8 && style >= 2:
			d.Ops = append(d.Ops, opD{K: "close"})
		case x == 9 && style == 3:
			d.Ops = append(d.Ops, opD{K: hlib.Pick(r, []string{"refuse", "refuse", "accept"})})
		default:
			d.Ops = append(d.Ops, opD{K: "reply", N: 1})
		}
	}
	for i := 0; i < calls; i++ {
		d.Flav = append(d.Flav, hlib.Pick(r, []int{0, 0, 0, 0, 1, 2, 3}))
	}
	if r.Intn(2) == 0 {
		// let every deadline pass long before the server wakes up: a caller that only returns when the server lets it is late by >= 2 ticks
		d.Ops = append(d.Ops, opD{K: "adv", N: maxDl + 2}, opD{K: "finish"}, opD{K: "adv", N: maxDl + 3})
	} else {
		d.Ops = append(d.Ops, opD{K: "finish"}, opD{K: "adv", N: maxDl + 1})
	}
	return d
}

func genStress(r *rand.Rand) desc {
	d := desc{Op: "stress", Cap: hlib.Pick(r, []int{1, 2, 4}), Conns: hlib.Pick(r, []int{1, 1, 2}),
		Srv: hlib.Pick(r, []string{"stall", "stall", "slow", "closemid", "noread", "normal", "flaky", "refuse", "garbage"}), Seed: r.Int63()}
	if r.Intn(5) == 0 {
		d.Batch = 2
	}
	switch r.Intn(8) {
	case 0:
		d.RT = 25 + r.Intn(30) // read timeouts: timeout error, 1 s reconnect throttle
	case 1:
		d.WT = 25 + r.Intn(30)
	case 2:
		d.Idle = 15 + r.Intn(20)
		d.Gap = 60
	}
	n := 6 + r.Intn(16)
	for i := 0; i < n; i++ {
		switch r.Intn(12) {
		case 0, 1:
			d.Calls = append(d.Calls, 0)
		case 2:
			d.Calls = append(d.Calls, -5) // deadline already passed
		default:
			d.Calls = append(d.Calls, 30+r.Intn(121))
		}
		d.Flav = append(d.Flav, hlib.Pick(r, []int{0, 0, 0, 1, 2, 3}))
	}
	return d
}

var sem = make(chan struct{}, 20)

func launch(d desc) desc {
	f := &future{done: make(chan struct{})}
	d.fut = f
	dd := d
	go func() {
		sem <- struct{}{}
		f.c = execute(dd)
		<-sem
		close(f.done)
	}()
	return d
}

func execute(d desc) hlib.Case {
	switch d.Op {
	case "dir":
		return runDir(d)
	case "stress":
		return runStress(d)
	default:
		return runCap(d)
	}
}

func gen(r *rand.Rand, i int) desc {
	if i%2 == 0 {
		return launch(genDir(r))
	}
	return launch(genStress(r))
}

func ops(s string) []opD {
	// compact notation: c2 = call with deadline tick 2, d = Do, r1 = reply 1, x = close, a1 = advance to 1, f = finish
	var out []opD
	for _, t := range strings.Fields(s) {
		n := 0
		if len(t) > 1 {
			n, _ = strconv.Atoi(t[1:])
		}
		switch t[0] {
		case 'c':
			out = append(out, opD{K: "call", N: n})
		case 'd':
			out = append(out, opD{K: "do"})
		case 'r':
			out = append(out, opD{K: "reply", N: n})
		case 'x':
			out = append(out, opD{K: "close"})
		case 'a':
			out = append(out, opD{K: "adv", N: n})
		case 'f':
			out = append(out, opD{K: "finish"})
		case 'R':
			out = append(out, opD{K: "refuse"})
		case 'A':
			out = append(out, opD{K: "accept"})
		}
	}
	return out
}

func corpus() []desc {
	var c []desc
	for _, mp := range []int{-1, 0, 1, 2, 4, 7} {
		c = append(c, launch(desc{Op: "cap", MaxP: mp}))
	}
	dir := func(cap int, s string) { c = append(c, launch(desc{Op: "dir", Cap: cap, Ops: ops(s)})) }
	// stalled server, queue saturation: reader holds 1, chR cap, writer holds 1, chW cap; the next deadline call waits and times out
	dir(1, "c2 c2 c2 c2 c2 a2 f a3")
	// ... long before the server lets anything move again (both selects must contain the timer)
	dir(1, "c1 c1 c1 c1 c1 c1 a1 a3 f a4")
	dir(2, "c1 c1 c1 c1 c1 c1 c1 c1 a1 a3 r1 a4 f a5")
	dir(1, "c1 c2 c1 c2 c1 c2 a1 a2 a4 f a5")
	dir(2, "c2 c2 c2 a1 c2 c2 c2 c3 a3 f a4")
	// Do on a saturated queue substitutes the oldest queued item (ErrPipelineOverflow, never transmitted)
	dir(1, "c3 c3 c3 c3 d a1 d d a3 f a4")
	dir(1, "c2 c2 c2 c2 c2 d a3 r1 x f a4")
	dir(2, "d d d d d d a1 d d f a2")
	// answers in order, then stall, then expiry inside the queue (writer's deadline test)
	dir(1, "c1 r1 c2 r1 c2 c2 c2 c2 a2 r4 f a3")
	dir(2, "r3 c1 c1 c1 c2 a1 c3 c3 a2 f a4")
	// server closes: the item being read gets a connection error, queued-for-read items are drained, queued-for-write survive
	dir(1, "c3 c3 c3 c3 x a1 r2 a3 f a4")
	dir(2, "c2 x c2 a1 c3 r1 x f a4")
	dir(4, "c2 c2 c2 c2 c2 c2 x r2 a2 f a3")
	dir(1, "x c2 a1 c3 x c3 f a4")
	dir(2, "c1 a1 c2 a2 c3 a3 f a4")
	// a request written while later items are still queued arms no flush; when those later items then expire in the queue the
	// writer must still flush it before going idle (regression scenario for the fixed "request stays in the bufio.Writer, Do never
	// returns" defect; the scheduler models the buffer)
	dir(4, "d c1 d d a1 c3 a2 c3 d c4 a3 c4 a4 a6 f a7")
	dir(2, "c9 c9 c9 c9 c1 a1 f a2 a3")
	// the server refuses connections: nothing is transmitted, queued calls time out, Do substitutes; then it accepts again
	dir(2, "R c2 c2 c2 d c0 a1 A r1 a3 f a4")
	dir(1, "R c1 c1 c1 a1 a2 f a3")
	dir(2, "c2 r1 R x c3 c3 a1 c3 a2 A a3 f a4")
	dir(1, "c1 R x c2 d d a1 a2 A r9 a3 f a4")
	// deadline already reached at the call
	dir(2, "c0 c0 a1 c1 c0 c2 r1 a2 f a3")
	// call flavours: nil response object, POST with a body, HEAD
	c = append(c, launch(desc{Op: "dir", Cap: 2, Ops: ops("c2 c2 c2 c2 r2 d d a1 r2 a2 f a3"), Flav: []int{1, 2, 3, 1, 2, 3}}))
	c = append(c, launch(desc{Op: "dir", Cap: 1, Ops: ops("c2 c2 c2 c2 c2 d a2 x f a3"), Flav: []int{3, 2, 1, 1, 2, 3}}))
	for _, srv := range []string{"stall", "normal"} {
		// connection-level timeouts (timeout errors make pipelineWorker sleep 1 s before it redials), idle retirement between two bursts
		for _, v := range []desc{{RT: 30}, {WT: 30}, {Idle: 20, Gap: 70}, {RT: 30, Idle: 20, Gap: 70}} {
			d := v
			d.Op, d.Cap, d.Conns, d.Srv, d.Seed = "stress", 2, 1, srv, 9
			for i := 0; i < 14; i++ {
				d.Calls = append(d.Calls, 30+(i*37)%120)
				d.Flav = append(d.Flav, i%4)
			}
			d.Calls = append(d.Calls, -5, 0)
			c = append(c, launch(d))
		}
	}
	for _, srv := range []string{"stall", "slow", "closemid", "noread", "normal", "flaky", "refuse", "garbage"} {
		for _, cp := range []int{1, 2, 4} {
			d := desc{Op: "stress", Cap: cp, Conns: 1, Srv: srv, Seed: int64(cp)}
			for i := 0; i < 14; i++ {
				d.Calls = append(d.Calls, 30+(i*37)%120)
			}
			d.Calls = append(d.Calls, 0, 0, 0)
			c = append(c, launch(d))
		}
	}
	return c
}

func run(d desc) hlib.Case {
	if d.fut != nil {
		<-d.fut.done
		return d.fut.c
	}
	return execute(d)
}

func main() {
	startCanary()
	hlib.Main(hlib.Prop[desc]{
		ID:       "C38",
		Imports:  "From FH Require Import Model.Base Model.Pipeline Check.C38Check.",
		CaseType: "c38case",
		CorrOK:   "corr_ok",
		PropOK:   "prop_ok",
		Rule: "directed scenarios (MaxPendingRequests 1/2/4; DoDeadline with deadlines on 200 ms tick boundaries, Do, scripted server that answers k / stalls / closes / answers all) " +
			"replayed on the transition system and compared on PendingRequests() after every operation and (class, server saw the path) per call; " +
			"stress bursts of 6-21 concurrent DoTimeout (30-150 ms) / Do calls on 1-2 connections against stalling, slow, mid-response-closing, non-reading, flaky and normal servers, judged by the property oracle " +
			"(return <= deadline + 150 ms, overflow => path never seen, own response, pending <= 2*cap per connection); non-trivial = new (capacity, outcome vector) class",
		Corpus:   corpus,
		Gen:      gen,
		Run:      run,
		ShardLen: 60,
	})
}
