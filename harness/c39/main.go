// Correspondence harness for C39 (prefork supervision and teardown).
//
// Every history runs the REAL prefork.Prefork.ListenAndServe (master side) in its own process
// (role "case": GOMAXPROCS is process-global) with a CommandProducer that starts tiny real
// processes according to a plan, hooks that fail on demand, and a Logger that records which
// exits the supervision loop processed.  After the return the case process looks at every
// child it started (wait status, /proc) and at /proc for anything carrying the run's tag.
// Only processes started by the producer (identified by *exec.Cmd or by the tag in their
// environment) are ever signalled by the harness.
package main

import (
	"encoding/json"
	"errors"
	"fmt"
	"math/rand"
	"os"
	"os/exec"
	"os/signal"
	"path/filepath"
	"runtime"
	"strconv"
	"strings"
	"sync"
	"syscall"
	"time"

	"github.com/valyala/fasthttp/prefork"
	"verif/harness/hlib"
)

// ---- case description -------------------------------------------------------

type kidPlan struct {
	// exit: exits Code after DelayMs | sleep: `sleep 30` (dies of SIGTERM) |
	// stubborn: sh that ignores SIGTERM then execs sleep 30 | goterm: Go child, logs SIGTERM, exits 0 |
	// gostubborn: Go child, logs SIGTERM, keeps running | fail / nil / notstarted: producer faults
	Kind    string `json:"kind"`
	Code    int    `json:"code,omitempty"`
	DelayMs int    `json:"delay_ms,omitempty"`
}

type desc struct {
	ID          string    `json:"id"`
	G           int       `json:"g"`
	T           int       `json:"t"`
	RIms        int       `json:"ri_ms"`
	GraceMs     int       `json:"grace_ms"`
	HookSpawn   bool      `json:"hook_spawn"`
	HookReady   bool      `json:"hook_ready"`
	HookRecover bool      `json:"hook_recover"`
	Reuseport   bool      `json:"reuseport"`
	Kids        []kidPlan `json:"kids"`                       // plan of the i-th producer call; beyond the list: exit 0 after 10 ms
	HookAt      int       `json:"hook_at"`                    // OnChildSpawn call index that fails (-1: never)
	HookPanic   bool      `json:"hook_panic"`                 // ... by panicking
	Ready       int       `json:"ready"`                      // OnMasterReady: 0 ok, 1 error, 2 panic
	Entry       string    `json:"entry,omitempty"`            // "" ListenAndServe | tls ListenAndServeTLS | tlsembed ListenAndServeTLSEmbed
	DefaultProd bool      `json:"default_producer,omitempty"` // CommandProducer nil: the master re-executes this binary (children exit 3 at once)
	RecPanicAt  int       `json:"rec_panic_at,omitempty"`     // OnChildRecover call (1-based) that panics; 0 = never
}

// ---- result of one history (case process -> harness) -------------------------

type logEv struct {
	K   string `json:"k"` // spawn | hook | ready | reccb | recv
	R   string `json:"r"` // spawn: started|error|nil|notstarted ; hook/ready: ok|err|panic
	Pid int    `json:"pid"`
	Old int    `json:"old,omitempty"`
	Ts  int64  `json:"ts"` // ns since start of the history
	T0  int64  `json:"t0"` // spawn: ns before cmd.Start()
}

type kidRes struct {
	Pid      int    `json:"pid"`
	Kind     string `json:"kind"`
	MinLife  int64  `json:"min_life"` // ns the child certainly lives when left alone
	Reaped   bool   `json:"reaped"`
	Left     bool   `json:"left"`
	Cause    string `json:"cause"` // exit|term|kill|other|none
	Code     int    `json:"code"`
	TermSeen int    `json:"term_seen"` // -1 unknown, 0 no, 1 yes
}

type result struct {
	Log        []logEv  `json:"log"`
	Returned   bool     `json:"returned"`
	Err        string   `json:"err"` // class
	RetTs      int64    `json:"ret_ts"`
	Kids       []kidRes `json:"kids"`
	TaggedLeft int      `json:"tagged_left"`
	Note       string   `json:"note,omitempty"`
}

const roleEnv = "VERIF_C39_ROLE"

// long-lived children outlive every history by far: a child the master forgets to signal keeps
// prefork from returning until the per-history watchdog fires (classified as a property failure)
const (
	longLife     = 30 * time.Second
	longLifeSecs = "30"
	watchdog     = 10 * time.Second
)

// ---- child role: a Go child that reports SIGTERM ------------------------------

func childMain() {
	if d := os.Getenv("VERIF_C39_DELAY"); d != "" {
		// plain child: default signal dispositions, exits with the given code after the delay
		ms, _ := strconv.Atoi(d)
		code, _ := strconv.Atoi(os.Getenv("VERIF_C39_EXIT"))
		time.Sleep(time.Duration(ms) * time.Millisecond)
		os.Exit(code)
	}
	ch := make(chan os.Signal, 4)
	signal.Notify(ch, syscall.SIGTERM)
	logf := os.Getenv("VERIF_C39_TERMLOG")
	stubborn := os.Getenv("VERIF_C39_STUBBORN") == "1"
	deadline := time.After(longLife)
	for {
		select {
		case <-ch:
			f, err := os.OpenFile(logf, os.O_APPEND|os.O_CREATE|os.O_WRONLY, 0o644)
			if err == nil {
				fmt.Fprintf(f, "%d\n", os.Getpid())
				f.Close()
			}
			if !stubborn {
				os.Exit(0)
			}
		case <-deadline:
			os.Exit(0)
		}
	}
}

// ---- case role: run one history against the real code ---------------------------

type evLogger struct {
	rec func(e logEv)
}

func (l evLogger) Printf(format string, args ...any) {
	// the supervision loop reports each processed exit through the Logger; that is the only
	// place the last processed exit (the one that trips the threshold) is visible
	if strings.HasPrefix(format, "prefork: child PID %d exited") && len(args) >= 1 {
		if pid, ok := args[0].(int); ok {
			l.rec(logEv{K: "recv", Pid: pid})
		}
	}
}

func errClass(err error, panicked bool) string {
	switch {
	case panicked:
		return "panic"
	case err == nil:
		return "nil"
	case errors.Is(err, prefork.ErrOverRecovery):
		return "over"
	case errors.Is(err, prefork.ErrCommandProducerNilCmd):
		return "nilcmd"
	case errors.Is(err, prefork.ErrCommandProducerNotStarted):
		return "notstarted"
	case errors.Is(err, errProducer):
		return "producer"
	case errors.Is(err, errHookSpawn):
		return "hookspawn"
	case errors.Is(err, errHookReady):
		return "hookready"
	}
	return "other:" + err.Error()
}

var (
	errProducer  = errors.New("c39: producer fault")
	errHookSpawn = errors.New("c39: OnChildSpawn fault")
	errHookReady = errors.New("c39: OnMasterReady fault")
)

func planOf(d desc, i int) kidPlan {
	if i < len(d.Kids) {
		return d.Kids[i]
	}
	return kidPlan{Kind: "exit", Code: 0, DelayMs: 10}
}

func runCase(d desc) result {
	runtime.GOMAXPROCS(d.G)
	tag := fmt.Sprintf("VERIF_C39_TAG=%d-%d", os.Getpid(), time.Now().UnixNano())
	dir, err := os.MkdirTemp("", "c39-")
	if err != nil {
		return result{Note: "mkdirtemp: " + err.Error()}
	}
	defer os.RemoveAll(dir)
	termlog := filepath.Join(dir, "term.log")
	self, _ := os.Executable()

	start := time.Now()
	var mu sync.Mutex
	var res result
	var cmds []*exec.Cmd
	rec := func(e logEv) {
		mu.Lock()
		if e.Ts == 0 {
			e.Ts = int64(time.Since(start))
		}
		res.Log = append(res.Log, e)
		mu.Unlock()
	}
	env := append(os.Environ(), tag, "FASTHTTP_PREFORK_CHILD=1")
	calls := 0
	producer := func(files []*os.File) (*exec.Cmd, error) {
		i := calls
		calls++
		pl := planOf(d, i)
		var cmd *exec.Cmd
		minLife := int64(0)
		goExit := false
		switch pl.Kind {
		case "fail":
			rec(logEv{K: "spawn", R: "error"})
			return nil, errProducer
		case "nil":
			rec(logEv{K: "spawn", R: "nil"})
			return nil, nil
		case "notstarted":
			rec(logEv{K: "spawn", R: "notstarted"})
			return exec.Command("/bin/sh", "-c", "exit 0"), nil
		case "exit":
			// no delay: sh exits at once; with a delay: a Go child that sleeps itself (a shell would fork
			// `sleep`, a grandchild that survives its parent and is none of prefork's business)
			if pl.DelayMs > 0 {
				cmd = exec.Command(self)
				goExit = true
			} else {
				cmd = exec.Command("/bin/sh", "-c", fmt.Sprintf("exit %d", pl.Code))
			}
			minLife = int64(pl.DelayMs) * int64(time.Millisecond)
		case "suicide": // dies of a signal nobody in the master sent
			cmd = exec.Command("/bin/sh", "-c", "kill -9 $$")
		case "sleep":
			cmd = exec.Command("/bin/sleep", longLifeSecs)
		case "stubborn":
			cmd = exec.Command("/bin/sh", "-c", `trap "" TERM; exec sleep `+longLifeSecs)
		case "goterm", "gostubborn":
			cmd = exec.Command(self)
		default:
			rec(logEv{K: "spawn", R: "error"})
			return nil, errProducer
		}
		cmd.Env = append([]string(nil), env...)
		if goExit {
			cmd.Env = append(cmd.Env, roleEnv+"=child", fmt.Sprintf("VERIF_C39_EXIT=%d", pl.Code), fmt.Sprintf("VERIF_C39_DELAY=%d", pl.DelayMs))
		}
		if pl.Kind == "goterm" || pl.Kind == "gostubborn" {
			cmd.Env = append(cmd.Env, roleEnv+"=child", "VERIF_C39_TERMLOG="+termlog)
			if pl.Kind == "gostubborn" {
				cmd.Env = append(cmd.Env, "VERIF_C39_STUBBORN=1")
			}
		}
		t0 := int64(time.Since(start))
		if err := cmd.Start(); err != nil {
			rec(logEv{K: "spawn", R: "error"})
			return nil, fmt.Errorf("%w: %v", errProducer, err)
		}
		mu.Lock()
		cmds = append(cmds, cmd)
		kind := pl.Kind
		if goExit {
			kind = "exit-go"
		}
		res.Kids = append(res.Kids, kidRes{Pid: cmd.Process.Pid, Kind: kind, MinLife: minLife, TermSeen: -1})
		mu.Unlock()
		rec(logEv{K: "spawn", R: "started", Pid: cmd.Process.Pid, T0: t0})
		return cmd, nil
	}

	p := &prefork.Prefork{
		Reuseport:           d.Reuseport,
		RecoverThreshold:    d.T,
		RecoverInterval:     time.Duration(d.RIms) * time.Millisecond,
		ShutdownGracePeriod: time.Duration(d.GraceMs) * time.Millisecond,
		Logger:              evLogger{rec},
		CommandProducer:     producer,
	}
	if d.DefaultProd {
		p.CommandProducer = nil
		d.HookSpawn = true // the only place the pids of the default producer's children are visible
	}
	if d.HookSpawn {
		hookCalls := 0
		p.OnChildSpawn = func(pid int) error {
			i := hookCalls
			hookCalls++
			if d.DefaultProd {
				mu.Lock()
				cmds = append(cmds, nil)
				res.Kids = append(res.Kids, kidRes{Pid: pid, Kind: "default", TermSeen: -1})
				mu.Unlock()
				rec(logEv{K: "spawn", R: "started", Pid: pid})
			}
			if i == d.HookAt {
				if d.HookPanic {
					rec(logEv{K: "hook", R: "panic", Pid: pid})
					panic("c39: OnChildSpawn panics")
				}
				rec(logEv{K: "hook", R: "err", Pid: pid})
				return errHookSpawn
			}
			rec(logEv{K: "hook", R: "ok", Pid: pid})
			return nil
		}
	}
	if d.HookReady {
		p.OnMasterReady = func(pids []int) error {
			switch d.Ready {
			case 1:
				rec(logEv{K: "ready", R: "err"})
				return errHookReady
			case 2:
				rec(logEv{K: "ready", R: "panic"})
				panic("c39: OnMasterReady panics")
			}
			rec(logEv{K: "ready", R: "ok"})
			return nil
		}
	}
	if d.HookRecover {
		recCalls := 0
		p.OnChildRecover = func(oldPID, newPID int) {
			recCalls++
			if recCalls == d.RecPanicAt {
				rec(logEv{K: "reccb", R: "panic", Old: oldPID, Pid: newPID})
				panic("c39: OnChildRecover panics")
			}
			rec(logEv{K: "reccb", Old: oldPID, Pid: newPID})
		}
	}

	type ret struct {
		err      error
		panicked bool
		ts       int64
	}
	wd := watchdog
	if d.GraceMs <= 0 {
		wd += 5 * time.Second // the default grace period is part of a correct teardown here
	}
	done := make(chan ret, 1)
	go func() {
		var r ret
		defer func() {
			if e := recover(); e != nil {
				r.panicked = true
			}
			r.ts = int64(time.Since(start))
			done <- r
		}()
		switch d.Entry {
		case "tls":
			r.err = p.ListenAndServeTLS("127.0.0.1:0", "no-key.pem", "no-cert.pem")
		case "tlsembed":
			r.err = p.ListenAndServeTLSEmbed("127.0.0.1:0", nil, nil)
		default:
			r.err = p.ListenAndServe("127.0.0.1:0")
		}
	}()
	select {
	case r := <-done:
		res.Returned = true
		res.Err = errClass(r.err, r.panicked)
		res.RetTs = r.ts
	case <-time.After(wd):
		res.Returned = false
		res.Note = "prefork did not return within " + wd.String()
	}

	// ---- observe the children (only those this producer started) ----
	mu.Lock()
	defer mu.Unlock()
	seen := map[int]bool{}
	if b, err := os.ReadFile(termlog); err == nil {
		for _, l := range strings.Fields(string(b)) {
			if pid, err := strconv.Atoi(l); err == nil {
				seen[pid] = true
			}
		}
	}
	me := os.Getpid()
	for i, cmd := range cmds {
		k := &res.Kids[i]
		// TermSeen is only set when it is certain: a Go child that logged the signal saw it (a missing
		// log line proves nothing: the child may have been killed before it got to write)
		if seen[k.Pid] {
			k.TermSeen = 1
		}
		if cmd == nil {
			// child of the default producer: no handle; it is ours as long as it is our child in /proc
			if st, ppid, ok := procStat(k.Pid); ok && ppid == me {
				k.Left, k.Cause = true, "none"
				k.Kind += "/" + st
			} else {
				k.Reaped, k.Cause = true, "other"
			}
			continue
		}
		ps := cmd.ProcessState
		if ps != nil {
			k.Reaped = true
			ws, _ := ps.Sys().(syscall.WaitStatus)
			switch {
			case ws.Exited():
				k.Cause, k.Code = "exit", ws.ExitStatus()
			case ws.Signaled() && ws.Signal() == syscall.SIGTERM:
				k.Cause = "term"
				k.TermSeen = 1
			case ws.Signaled() && ws.Signal() == syscall.SIGKILL:
				k.Cause = "kill"
				// sh and sleep keep the default SIGTERM disposition: the kernel marks them dead by SIGTERM
				// at send time, so dying of SIGKILL means no SIGTERM was sent before
				if k.Kind == "exit" || k.Kind == "sleep" {
					k.TermSeen = 0
				}
				if k.Kind == "suicide" {
					k.Cause = "other" // its own doing, not the master's SIGKILL
				}
			default:
				k.Cause = "other"
			}
			continue
		}
		// never reaped by the master: the pid still belongs to our child (running or zombie)
		k.Cause = "none"
		if st, ppid, ok := procStat(k.Pid); ok && ppid == me {
			k.Left = true
			k.Kind += "/" + st
		}
	}
	// anything in /proc that carries this run's tag is a process we started and that outlived prefork
	tagged := taggedPids(tag)
	res.TaggedLeft = len(tagged)
	// ---- cleanup: our own leftovers only ----
	for i, cmd := range cmds {
		if cmd == nil {
			if res.Kids[i].Left {
				_ = syscall.Kill(res.Kids[i].Pid, syscall.SIGKILL) // still our own child: the pid cannot have been reused
			}
			continue
		}
		if !res.Kids[i].Reaped {
			_ = cmd.Process.Kill()
		}
	}
	for _, pid := range tagged {
		if pidHasTag(pid, tag) {
			_ = syscall.Kill(pid, syscall.SIGKILL)
		}
	}
	return res
}

func procStat(pid int) (state string, ppid int, ok bool) {
	b, err := os.ReadFile(fmt.Sprintf("/proc/%d/stat", pid))
	if err != nil {
		return "", 0, false
	}
	s := string(b)
	i := strings.LastIndexByte(s, ')')
	if i < 0 {
		return "", 0, false
	}
	f := strings.Fields(s[i+1:])
	if len(f) < 2 {
		return "", 0, false
	}
	pp, _ := strconv.Atoi(f[1])
	return f[0], pp, true
}

func pidHasTag(pid int, tag string) bool {
	b, err := os.ReadFile(fmt.Sprintf("/proc/%d/environ", pid))
	if err != nil {
		return false
	}
	for _, kv := range strings.Split(string(b), "\x00") {
		if kv == tag {
			return true
		}
	}
	return false
}

func taggedPids(tag string) []int {
	ents, err := os.ReadDir("/proc")
	if err != nil {
		return nil
	}
	var out []int
	for _, e := range ents {
		pid, err := strconv.Atoi(e.Name())
		if err != nil || pid == os.Getpid() {
			continue
		}
		if pidHasTag(pid, tag) {
			out = append(out, pid)
		}
	}
	return out
}

func caseMain() {
	var d desc
	if err := json.Unmarshal([]byte(os.Getenv("VERIF_C39_DESC")), &d); err != nil {
		fmt.Fprintln(os.Stderr, "bad desc:", err)
		os.Exit(2)
	}
	os.Unsetenv("VERIF_C39_DESC")
	os.Unsetenv(roleEnv)
	r := runCase(d)
	b, _ := json.Marshal(r)
	os.Stdout.Write(b)
}

// ---- harness side: run a history in a case process ------------------------------

func execCase(d desc) result {
	self, _ := os.Executable()
	dj, _ := json.Marshal(d)
	cmd := exec.Command(self)
	cmd.Env = append(os.Environ(), roleEnv+"=case", "VERIF_C39_DESC="+string(dj))
	cmd.Stderr = os.Stderr
	out, err := cmd.Output()
	var r result
	if err != nil {
		r.Note = "case process: " + err.Error()
		return r
	}
	if err := json.Unmarshal(out, &r); err != nil {
		r.Note = "case process output: " + err.Error()
	}
	return r
}

var (
	futMu   sync.Mutex
	futures = map[string]chan result{}
	sem     = make(chan struct{}, 6)
)

func schedule(d desc) desc {
	ch := make(chan result, 1)
	futMu.Lock()
	futures[d.ID] = ch
	futMu.Unlock()
	go func() {
		sem <- struct{}{}
		defer func() { <-sem }()
		ch <- execCase(d)
	}()
	return d
}

func resultOf(d desc) result {
	futMu.Lock()
	ch, ok := futures[d.ID]
	delete(futures, d.ID)
	futMu.Unlock()
	if ok {
		return <-ch
	}
	return execCase(d)
}

// ---- Coq rendering ---------------------------------------------------------------

func outcome(r string) string {
	switch r {
	case "ok":
		return "HOk"
	case "err":
		return "HErr"
	}
	return "HPanic"
}

func errCoq(c string) string {
	switch c {
	case "over":
		return "ErrOverRecovery"
	case "nilcmd":
		return "ErrNilCmd"
	case "notstarted":
		return "ErrNotStarted"
	case "producer":
		return "ErrProducer"
	case "hookspawn":
		return "ErrHookSpawn"
	case "hookready":
		return "ErrHookReady"
	case "panic":
		return "ErrPanic"
	}
	return ""
}

func run(d desc) hlib.Case {
	r := resultOf(d)
	c := hlib.Case{Kind: "history", Size: len(r.Log)}
	backoff := d.RIms > 0
	cfg := hlib.App("mkcfg", hlib.Z(int64(d.G)), hlib.Z(int64(d.T)), hlib.Bool(backoff), hlib.Bool(d.HookSpawn), hlib.Bool(d.HookReady), hlib.Bool(d.HookRecover))

	// cid of a pid = index of the latest started child with that pid
	cidOf := map[int]int{}
	spawnT0 := map[int]int64{}
	processed := map[int]bool{} // by cid
	var tr []string
	var lifes []string
	nStarted, nRecv := 0, 0
	trigger := -1 // index in r.Log of the event that starts the teardown
	triggerTs := int64(0)
	die := func(cid int, how string) {
		tr = append(tr, fmt.Sprintf("EDie %d%%nat %s", cid, how), fmt.Sprintf("EReap %d%%nat", cid))
	}
	earlyDeaths := func() {
		// children that ended by themselves and whose exit was never processed: place their death
		// before the teardown starts (the labels commute with the master's; any placement while
		// the child is running is accepted by the model)
		for cid, k := range r.Kids {
			if cid < nStarted && !processed[cid] && k.Reaped && (k.Cause == "exit" || k.Cause == "other") {
				die(cid, "DSelf")
			}
		}
	}
	for i, e := range r.Log {
		isTrigger := false
		switch e.K {
		case "spawn":
			isTrigger = e.R != "started"
		case "hook", "ready":
			isTrigger = e.R != "ok"
		case "reccb":
			isTrigger = e.R == "panic"
		case "recv":
			isTrigger = nRecv+1 > d.T
		}
		if isTrigger && trigger < 0 {
			trigger, triggerTs = i, e.Ts
			if e.K != "recv" {
				earlyDeaths()
			}
		}
		switch e.K {
		case "spawn":
			switch e.R {
			case "started":
				cidOf[e.Pid] = nStarted
				spawnT0[nStarted] = e.T0
				nStarted++
				tr = append(tr, "ESpawn (PStarted "+hlib.Z(int64(e.Pid))+")")
			case "error":
				tr = append(tr, "ESpawn PError")
			case "nil":
				tr = append(tr, "ESpawn PNilCmd")
			case "notstarted":
				tr = append(tr, "ESpawn PNotStarted")
			}
		case "hook":
			tr = append(tr, "EHook "+outcome(e.R))
		case "ready":
			tr = append(tr, "EReady "+outcome(e.R))
		case "reccb":
			if e.R == "panic" {
				tr = append(tr, "ERecoverPanic")
			} else {
				tr = append(tr, "ERecoverCb "+hlib.Z(int64(e.Old))+" "+hlib.Z(int64(e.Pid)))
			}
		case "recv":
			if cid, ok := cidOf[e.Pid]; ok && !processed[cid] {
				die(cid, "DSelf")
				if backoff {
					tr = append(tr, fmt.Sprintf("ETimer %d%%nat", cid))
				}
				processed[cid] = true
				if cid < len(r.Kids) {
					lifes = append(lifes, hlib.Tuple(hlib.Z(r.Kids[cid].MinLife), hlib.Z(e.Ts-spawnT0[cid])))
				}
			}
			nRecv++
			if isTrigger && trigger == i {
				earlyDeaths()
			}
			tr = append(tr, "ERecv "+hlib.Z(int64(e.Pid)))
		}
	}
	// teardown: deaths caused by the master's signals, in the order SIGTERM victims, grace expiry, SIGKILL victims
	anyKill := false
	for cid, k := range r.Kids {
		if !processed[cid] && k.Reaped && k.Cause == "term" {
			die(cid, "DTerm")
		}
		if k.Cause == "kill" {
			anyKill = true
		}
	}
	if anyKill {
		tr = append(tr, "EGrace")
		for cid, k := range r.Kids {
			if !processed[cid] && k.Reaped && k.Cause == "kill" {
				die(cid, "DKill")
			}
		}
	}
	if r.Returned {
		tr = append(tr, "EDrain")
	}

	ret := hlib.None()
	if r.Returned {
		if ec := errCoq(r.Err); ec != "" {
			ret = hlib.Some(ec)
		} else {
			r.Note += " unexpected return class " + r.Err
		}
	}
	var ks []string
	for _, k := range r.Kids {
		cause := "CNone"
		switch k.Cause {
		case "exit":
			cause = "(CExit " + hlib.Z(int64(k.Code)) + ")"
		case "term":
			cause = "CTerm"
		case "kill":
			cause = "CKill"
		case "other":
			cause = "COther"
		}
		ts := hlib.None()
		if k.TermSeen >= 0 {
			ts = hlib.Some(hlib.Bool(k.TermSeen == 1))
		}
		ks = append(ks, hlib.App("ko", hlib.Z(int64(k.Pid)), hlib.Bool(k.Reaped), hlib.Bool(k.Left), cause, ts))
	}
	teardown := int64(0)
	if r.Returned && trigger >= 0 {
		teardown = r.RetTs - triggerTs
	}
	c.Coq = hlib.App("C39", cfg,
		hlib.Z(int64(d.GraceMs)*int64(time.Millisecond)), hlib.Z(int64(d.RIms)*int64(time.Millisecond)),
		hlib.List(tr), ret, hlib.List(ks), hlib.Z(int64(r.TaggedLeft)), hlib.Z(teardown), hlib.List(lifes))

	// class signature: configuration shape, how it ended, which teardown paths were taken
	causes := map[string]bool{}
	for _, k := range r.Kids {
		causes[k.Cause] = true
	}
	c.Sig = fmt.Sprintf("g%d-t%d-b%v-h%v%v%v-%s-recv%d-%v", d.G, d.T, backoff, d.HookSpawn, d.HookReady, d.HookRecover, r.Err, nRecv, hlib.SortedKeys(causes))
	c.Kind = "end:" + r.Err
	if !r.Returned {
		c.Kind = "no-return"
	}
	if r.Note != "" {
		fmt.Fprintf(os.Stderr, "c39 %s: %s\n", d.ID, r.Note)
	}
	return c
}

// ---- generators -------------------------------------------------------------------

func ex(code, ms int) kidPlan { return kidPlan{Kind: "exit", Code: code, DelayMs: ms} }
func kd(kind string) kidPlan  { return kidPlan{Kind: kind} }

func corpus() []desc {
	base := func(g, t, ri, grace int) desc {
		return desc{G: g, T: t, RIms: ri, GraceMs: grace, HookAt: -1, Reuseport: true}
	}
	var c []desc
	add := func(d desc) {
		d.ID = fmt.Sprintf("c%d", len(c))
		c = append(c, d)
	}
	// over-recovery at every small threshold, with and without backoff; one long-lived sibling where G allows
	for _, g := range []int{1, 2, 3} {
		for _, t := range []int{0, 1, 2} {
			d := base(g, t, 40*(t%2), 100)
			d.HookSpawn, d.HookRecover = t != 1, t != 0
			if g >= 2 {
				d.Kids = []kidPlan{kd("sleep"), ex(3, 20), ex(0, 5)}
			}
			if g == 3 {
				d.Kids = []kidPlan{ex(1, 30), kd("stubborn"), kd("goterm"), ex(0, 0)}
			}
			add(d)
		}
	}
	// negative threshold: the first exit already exceeds it
	d := base(2, -1, 0, 100)
	d.Kids = []kidPlan{kd("gostubborn"), ex(7, 10)}
	add(d)
	// producer faults in the initial loop (children already started must be torn down) and in recovery
	for j, kind := range []string{"fail", "nil", "notstarted"} {
		d := base(3, 2, 30, 120)
		d.Kids = []kidPlan{kd("sleep"), kd("stubborn"), kd(kind)}
		d.HookSpawn = j == 1
		add(d)
		d = base(2, 3, 30, 100)
		d.Kids = []kidPlan{kd("gostubborn"), ex(2, 10), ex(0, 10), kd(kind)}
		d.HookRecover = j != 1
		add(d)
	}
	d = base(1, 1, 0, 100)
	d.Kids = []kidPlan{kd("fail")}
	add(d)
	// hook faults: OnChildSpawn error / panic at the first, a middle and a recovered child; OnMasterReady error / panic
	for _, at := range []int{0, 1, 2, 3} {
		for _, pn := range []bool{false, true} {
			d := base(3, 2, 0, 100)
			d.HookSpawn, d.HookAt, d.HookPanic = true, at, pn
			d.HookReady = at%2 == 0
			d.Kids = []kidPlan{kd("goterm"), ex(4, 15), kd("stubborn")}
			if pn {
				d.Kids = []kidPlan{kd("sleep"), ex(4, 15), kd("gostubborn")}
			}
			add(d)
		}
	}
	// OnChildSpawn rejects a REPLACEMENT that is long-lived: it must be in childProcs when the teardown runs
	for g := 1; g <= 3; g++ {
		for nth, repl := range []string{"sleep", "stubborn", "gostubborn", "goterm"} {
			d := base(g, 3, 30*(nth%2), 100)
			d.HookSpawn, d.HookRecover = true, nth%2 == 0
			for j := 0; j < g-1; j++ {
				d.Kids = append(d.Kids, kd(hlib.Pick(rand.New(rand.NewSource(int64(g*10+nth+j))), []string{"sleep", "stubborn", "goterm"})))
			}
			d.Kids = append(d.Kids, ex(3, 10))
			k := nth % 2 // reject the first or the second replacement
			for j := 0; j < k; j++ {
				d.Kids = append(d.Kids, ex(0, 5))
			}
			d.Kids = append(d.Kids, kd(repl))
			d.HookAt = g + k
			d.HookPanic = nth == 3
			add(d)
		}
	}
	for _, rd := range []int{1, 2} {
		d := base(2, 1, 50, 100)
		d.HookReady, d.Ready = true, rd
		d.Kids = []kidPlan{kd("stubborn"), kd("sleep")}
		add(d)
		d = base(1, 0, 0, 80)
		d.HookReady, d.Ready = true, rd
		d.Kids = []kidPlan{kd("gostubborn")}
		add(d)
	}
	// fd-passing mode (binds a listener; the returned error is joined with the listener close)
	d = base(2, 1, 20, 100)
	d.Reuseport = false
	d.Kids = []kidPlan{kd("sleep"), ex(1, 10)}
	add(d)
	// all children exit at once with backoff: exits are taken one by one, each replaced
	d = base(3, 3, 60, 100)
	d.HookSpawn, d.HookReady, d.HookRecover = true, true, true
	d.Kids = []kidPlan{ex(1, 20), ex(2, 20), ex(3, 20), kd("sleep"), kd("stubborn")}
	add(d)
	// the other two entry points run the same master
	for j, en := range []string{"tls", "tlsembed"} {
		d := base(2, 1, 20, 100)
		d.Entry, d.Reuseport = en, j == 0
		d.Kids = []kidPlan{kd("sleep"), ex(1, 10), ex(0, 5), kd("stubborn")}
		add(d)
	}
	// the default command producer (CommandProducer nil): this binary is re-executed and exits 3 at once
	for g := 1; g <= 2; g++ {
		d := base(g, 1, 20*(g-1), 100)
		d.DefaultProd, d.HookSpawn, d.Reuseport = true, true, g == 1
		add(d)
	}
	// ShutdownGracePeriod 0 means the 5 s default: not waited for when everybody obeys SIGTERM, waited for otherwise
	d = base(2, 0, 0, 0)
	d.Kids = []kidPlan{kd("sleep"), ex(2, 10)}
	add(d)
	d = base(2, 0, 0, 0)
	d.Kids = []kidPlan{kd("stubborn"), ex(2, 10)}
	add(d)
	// OnChildRecover panics: the deferred teardown still runs
	for g := 1; g <= 3; g += 2 {
		d := base(g, 3, 0, 100)
		d.HookRecover, d.HookSpawn, d.RecPanicAt = true, g == 3, 1+g/3
		for j := 0; j < g-1; j++ {
			d.Kids = append(d.Kids, kd([]string{"stubborn", "goterm"}[j%2]))
		}
		d.Kids = append(d.Kids, ex(1, 5), ex(0, 5), kd("sleep"))
		add(d)
	}
	// a child that dies of a signal by itself is an exit like any other
	d = base(2, 1, 30, 100)
	d.Kids = []kidPlan{kd("suicide"), kd("gostubborn"), kd("suicide")}
	add(d)
	for i := range c {
		schedule(c[i])
	}
	return c
}

func gen(r *rand.Rand, i int) desc {
	d := desc{ID: fmt.Sprintf("g%d", i), G: 1 + r.Intn(3), T: r.Intn(4), HookAt: -1, Reuseport: r.Intn(5) != 0}
	d.RIms = hlib.Pick(r, []int{0, 0, 30, 60})
	d.GraceMs = hlib.Pick(r, []int{80, 120, 150})
	d.HookSpawn, d.HookReady, d.HookRecover = r.Intn(2) == 0, r.Intn(2) == 0, r.Intn(2) == 0
	long := []string{"sleep", "stubborn", "goterm", "gostubborn"}
	total := d.G + d.T + 1
	ending := r.Intn(4)
	faultAt := -1
	switch ending {
	case 1: // producer fault at some spawn index
		faultAt = r.Intn(total)
	case 2: // OnChildSpawn fault
		d.HookSpawn = true
		d.HookAt = r.Intn(total)
		d.HookPanic = r.Intn(3) == 0
		faultAt = d.HookAt + 1
	case 3: // OnMasterReady fault
		d.HookReady = true
		d.Ready = 1 + r.Intn(2)
		faultAt = d.G
	}
	// at most G-1 long-lived children unless the fault comes while the initial fleet is still being
	// started: otherwise no child ever exits and prefork (correctly) keeps running
	maxLong := d.G - 1
	if faultAt >= 0 && (faultAt < d.G || (ending != 1 && faultAt == d.G)) {
		maxLong = d.G
	}
	nLong := 0
	for j := 0; j < total; j++ {
		if j == faultAt && ending == 1 {
			d.Kids = append(d.Kids, kd(hlib.Pick(r, []string{"fail", "nil", "notstarted"})))
			continue
		}
		if ending == 2 && j == d.HookAt && r.Intn(3) != 0 {
			d.Kids = append(d.Kids, kd(hlib.Pick(r, long)))
			continue
		}
		if nLong < maxLong && r.Intn(2) == 0 {
			d.Kids = append(d.Kids, kd(hlib.Pick(r, long)))
			nLong++
			continue
		}
		if r.Intn(8) == 0 {
			d.Kids = append(d.Kids, kd("suicide"))
			continue
		}
		d.Kids = append(d.Kids, ex(r.Intn(4), hlib.Pick(r, []int{0, 5, 15, 40})))
	}
	d.Entry = hlib.Pick(r, []string{"", "", "", "tls", "tlsembed"})
	if d.HookRecover && r.Intn(6) == 0 {
		d.RecPanicAt = 1 + r.Intn(2)
	}
	return schedule(d)
}

func main() {
	if os.Getenv(roleEnv) == "" && os.Getenv("FASTHTTP_PREFORK_CHILD") == "1" {
		// started by prefork's default command producer (re-exec of this binary): a child that exits at once
		os.Exit(3)
	}
	switch os.Getenv(roleEnv) {
	case "child":
		childMain()
		return
	case "case":
		caseMain()
		return
	}
	hlib.Main(hlib.Prop[desc]{
		ID:       "C39",
		Imports:  "From FH Require Import Model.Base Gen.GenC39 Model.Prefork Spec.PreforkSpec Check.C39Check.\nOpen Scope Z_scope.",
		CaseType: "c39case",
		CorrOK:   "corr_ok",
		PropOK:   "prop_ok",
		Rule: "histories of the real prefork master (one process per history, GOMAXPROCS 1..3, RecoverThreshold -1..3, RecoverInterval 0/30/60 ms, grace 80..150 ms) " +
			"driven through CommandProducer with real child processes (sh exit k, a Go child exiting k after a delay, sleep, SIGTERM-ignoring sh, Go children that log SIGTERM) and faults " +
			"(producer error / nil / not-started command, OnChildSpawn and OnMasterReady error or panic at a chosen call); non-trivial = distinct (config, ending, exits processed, set of death causes)",
		Corpus:   corpus,
		Gen:      gen,
		Run:      run,
		ShardLen: 50,
	})
}
