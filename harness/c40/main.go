// Correspondence harness for C40 (LBClient routes to the least-loaded client and penalties stay bounded).
//
// "hist" cases replay a sequential history (calls with scripted health verdicts and scripted PendingRequests of fake
// BalancingClients, AddClient, RemoveClients, waits) on a real LBClient and record, after every operation, the routing order,
// the penalty and total counters (verif export) and which fake served the call.  Histories with waits ("timed") use the real
// 3-second penalty timers: they are few, built with one-second safety margins around every timer deadline, and all of them run
// concurrently once (about 7 s wall-clock in total).  "stress" cases fire concurrent calls and check the settled counters.
package main

import (
	"encoding/json"
	"errors"
	"fmt"
	"math/rand"
	"sync"
	"sync/atomic"
	"time"

	"github.com/valyala/fasthttp"
	"verif/harness/hlib"
)

type opD struct {
	Op      string `json:"op"` // call | add | remove | at
	Pend    []int  `json:"pend,omitempty"`
	Healthy bool   `json:"healthy,omitempty"`
	Rm      []int  `json:"rm,omitempty"`
	T       int64  `json:"t,omitempty"` // at: milliseconds since the start of the history
}

type desc struct {
	Kind  string `json:"kind"` // hist | stress
	N0    int    `json:"n0"`
	HC    bool   `json:"hc,omitempty"` // custom HealthCheck (verdict independent of the error) instead of the default err == nil
	Ops   []opD  `json:"ops,omitempty"`
	Timed bool   `json:"timed,omitempty"`
	// stress
	G       int   `json:"g,omitempty"`
	K       int   `json:"k,omitempty"`
	FailPct []int `json:"failpct,omitempty"`
}

var errFake = errors.New("fake client failure")

type world struct {
	healthy atomic.Bool
	chosen  atomic.Int64
	hc      bool
}

type fake struct {
	id      int
	w       *world
	pending atomic.Int32
	calls   atomic.Int64
	fails   atomic.Int64
	failPct int // stress mode
	stress  bool
}

func (f *fake) DoDeadline(req *fasthttp.Request, resp *fasthttp.Response, deadline time.Time) error {
	n := f.calls.Add(1)
	if f.stress {
		f.pending.Add(1)
		defer f.pending.Add(-1)
		if int((n*7+int64(f.id)*13)%100) < f.failPct {
			f.fails.Add(1)
			return errFake
		}
		return nil
	}
	f.w.chosen.Store(int64(f.id))
	if f.w.hc {
		// the verdict comes from HealthCheck; make the error disagree with it half of the time
		if n%2 == 0 {
			return errFake
		}
		return nil
	}
	if f.w.healthy.Load() {
		return nil
	}
	return errFake
}

func (f *fake) PendingRequests() int { return int(f.pending.Load()) }

func zlist(xs []int64) string {
	it := make([]string, len(xs))
	for i, x := range xs {
		it[i] = hlib.Z(x)
	}
	return hlib.List(it)
}

func natlist(xs []int) string {
	it := make([]string, len(xs))
	for i, x := range xs {
		it[i] = fmt.Sprintf("%d%%nat", x)
	}
	return hlib.List(it)
}

func observe(lb *fasthttp.LBClient, choice int, errc int) string {
	cl, pens, tots := fasthttp.VerifLBState(lb)
	ids := make([]int, len(cl))
	ps := make([]int64, len(cl))
	ts := make([]int64, len(cl))
	for i := range cl {
		ids[i] = cl[i].(*fake).id
		ps[i] = int64(pens[i])
		ts[i] = int64(tots[i])
	}
	ch := hlib.None()
	if choice >= 0 {
		ch = hlib.Some(fmt.Sprintf("%d%%nat", choice))
	}
	return hlib.App("Ob", natlist(ids), zlist(ps), zlist(ts), ch, hlib.N(uint64(errc)))
}

func runHistOnce(d desc) (coq string, sig string, elapsed time.Duration) {
	w := &world{hc: d.HC}
	var fakes []*fake
	newFake := func() *fake {
		f := &fake{id: len(fakes), w: w}
		fakes = append(fakes, f)
		return f
	}
	lb := &fasthttp.LBClient{}
	for i := 0; i < d.N0; i++ {
		lb.Clients = append(lb.Clients, newFake())
	}
	if d.HC {
		lb.HealthCheck = func(req *fasthttp.Request, resp *fasthttp.Response, err error) bool { return w.healthy.Load() }
	}
	req := fasthttp.AcquireRequest()
	resp := fasthttp.AcquireResponse()
	defer fasthttp.ReleaseRequest(req)
	defer fasthttp.ReleaseResponse(resp)
	start := time.Now()
	items := make([]string, 0, len(d.Ops))
	ncall, nnoc, maxpen := 0, 0, int64(0)
	for i, op := range d.Ops {
		var opc, ob string
		switch op.Op {
		case "call":
			for j, f := range fakes {
				p := 0
				if j < len(op.Pend) {
					p = op.Pend[j]
				}
				f.pending.Store(int32(p))
			}
			w.healthy.Store(op.Healthy)
			w.chosen.Store(-1)
			var err error
			p := hlib.Protect(func() {
				switch i % 3 {
				case 0:
					err = lb.Do(req, resp)
				case 1:
					err = lb.DoTimeout(req, resp, time.Second)
				default:
					err = lb.DoDeadline(req, resp, time.Now().Add(time.Second))
				}
			})
			errc := 0
			switch {
			case p != "":
				errc = 2
			case errors.Is(err, fasthttp.ErrNoAvailableClients):
				errc = 1
				nnoc++
			}
			ncall++
			pend := make([]int64, len(fakes))
			for j := range fakes {
				if j < len(op.Pend) {
					pend[j] = int64(op.Pend[j])
				}
			}
			opc = hlib.App("OCall", zlist(pend), hlib.Bool(op.Healthy))
			ob = observe(lb, int(w.chosen.Load()), errc)
		case "add":
			lb.AddClient(newFake())
			opc = "OAdd"
			ob = observe(lb, -1, 0)
		case "remove":
			rm := map[int]bool{}
			for _, id := range op.Rm {
				rm[id] = true
			}
			lb.RemoveClients(func(c fasthttp.BalancingClient) bool { return rm[c.(*fake).id] })
			opc = hlib.App("ORemove", natlist(op.Rm))
			ob = observe(lb, -1, 0)
		case "at":
			time.Sleep(time.Until(start.Add(time.Duration(op.T) * time.Millisecond)))
			opc = hlib.App("OAt", hlib.Z(op.T*1000000))
			ob = observe(lb, -1, 0)
		default:
			panic("bad op " + op.Op)
		}
		items = append(items, hlib.Tuple(opc, ob))
	}
	_, pens, _ := fasthttp.VerifLBState(lb)
	for _, p := range pens {
		if int64(p) > maxpen {
			maxpen = int64(p)
		}
	}
	elapsed = time.Since(start)
	coq = hlib.App("CHist", fmt.Sprintf("%d%%nat", d.N0), hlib.List(items))
	sig = fmt.Sprintf("hist-n%d-calls%d-noc%d-clients%d-maxpen%d-hc%v-t%v", d.N0, ncall/4, nnoc, len(fakes), maxpen/50, d.HC, d.Timed)
	return coq, sig, elapsed
}

func runHist(d desc) hlib.Case {
	var coq, sig string
	for try := 0; try < 4; try++ {
		var el time.Duration
		coq, sig, el = runHistOnce(d)
		// an untimed history must finish long before the first penalty timer (3 s) can fire
		if d.Timed || el < 1500*time.Millisecond {
			break
		}
	}
	kind := "hist"
	if d.Timed {
		kind = "hist-timed"
	}
	return hlib.Case{Coq: coq, Sig: sig, Kind: kind, Size: len(d.Ops)}
}

func runStress(d desc) hlib.Case {
	var coq string
	for try := 0; try < 4; try++ {
		var fakes []*fake
		lb := &fasthttp.LBClient{}
		for i := 0; i < d.N0; i++ {
			f := &fake{id: i, stress: true, failPct: d.FailPct[i%len(d.FailPct)]}
			fakes = append(fakes, f)
			lb.Clients = append(lb.Clients, f)
		}
		start := time.Now()
		var wg sync.WaitGroup
		for g := 0; g < d.G; g++ {
			wg.Add(1)
			go func() {
				defer wg.Done()
				req := fasthttp.AcquireRequest()
				resp := fasthttp.AcquireResponse()
				for k := 0; k < d.K; k++ {
					lb.Do(req, resp)
				}
				fasthttp.ReleaseRequest(req)
				fasthttp.ReleaseResponse(resp)
			}()
		}
		wg.Wait()
		el := time.Since(start)
		_, pens, tots := fasthttp.VerifLBState(lb)
		calls := make([]int64, len(fakes))
		fails := make([]int64, len(fakes))
		ps := make([]int64, len(fakes))
		ts := make([]int64, len(fakes))
		for i, f := range fakes {
			calls[i], fails[i], ps[i], ts[i] = f.calls.Load(), f.fails.Load(), int64(pens[i]), int64(tots[i])
		}
		coq = hlib.App("CStress", zlist(calls), zlist(fails), zlist(ps), zlist(ts))
		if el < 1500*time.Millisecond {
			break
		}
	}
	return hlib.Case{Coq: coq, Sig: fmt.Sprintf("stress-n%d-g%d-k%d-%v", d.N0, d.G, d.K, d.FailPct), Kind: "stress", Size: d.G * d.K}
}

// timed histories all run concurrently the first time one of them is asked for
var timedOnce sync.Once
var timedRes = map[string]hlib.Case{}

func key(d desc) string { b, _ := json.Marshal(d); return string(b) }

func run(d desc) hlib.Case {
	switch d.Kind {
	case "stress":
		return runStress(d)
	case "hist":
		if !d.Timed {
			return runHist(d)
		}
		timedOnce.Do(func() {
			var mu sync.Mutex
			var wg sync.WaitGroup
			for _, td := range corpus() {
				if td.Timed {
					wg.Add(1)
					go func(td desc) {
						defer wg.Done()
						c := runHist(td)
						mu.Lock()
						timedRes[key(td)] = c
						mu.Unlock()
					}(td)
				}
			}
			wg.Wait()
		})
		if c, ok := timedRes[key(d)]; ok {
			return c
		}
		return runHist(d)
	}
	panic("bad kind " + d.Kind)
}

// ---- generators ------------------------------------------------------------------------------------------

func calls(n int, healthy bool, pend ...int) []opD {
	var o []opD
	for i := 0; i < n; i++ {
		o = append(o, opD{Op: "call", Healthy: healthy, Pend: pend})
	}
	return o
}

func cat(xs ...[]opD) []opD {
	var o []opD
	for _, x := range xs {
		o = append(o, x...)
	}
	return o
}

func corpus() []desc {
	var c []desc
	at := func(ms int64) []opD { return []opD{{Op: "at", T: ms}} }
	add := []opD{{Op: "add"}}
	rm := func(ids ...int) []opD { return []opD{{Op: "remove", Rm: ids}} }
	// no clients: zero value, everything removed, removed then added
	c = append(c, desc{Kind: "hist", N0: 0, Ops: calls(3, true)})
	c = append(c, desc{Kind: "hist", N0: 0, Ops: cat(calls(1, false), add, calls(2, true), rm(0), calls(2, true), add, calls(1, false))})
	c = append(c, desc{Kind: "hist", N0: 2, Ops: cat(rm(0, 1), calls(2, true), calls(1, true), rm(0, 1), calls(2, false))})
	c = append(c, desc{Kind: "hist", N0: 3, Ops: cat(calls(4, true), rm(0, 1, 2), calls(2, true), add, calls(2, true))})
	// AddClient before the first call: lazy init appends the configured Clients after it
	c = append(c, desc{Kind: "hist", N0: 2, Ops: cat(add, calls(4, true), add, calls(3, false), calls(3, true))})
	c = append(c, desc{Kind: "hist", N0: 2, Ops: cat(add, rm(2), add, calls(5, true))})
	// ties: equal loads -> fewest total, first wins; pending differences; penalties as load
	c = append(c, desc{Kind: "hist", N0: 3, Ops: cat(calls(7, true), calls(2, true, 1, 0, 0), calls(2, true, 0, 2, 0), calls(3, false), calls(6, true), calls(2, true, 3, 3, 3))})
	c = append(c, desc{Kind: "hist", N0: 3, HC: true, Ops: cat(calls(5, false), calls(5, true), calls(3, false, 2, 2, 0), calls(4, true, 0, 1, 1))})
	c = append(c, desc{Kind: "hist", N0: 2, Ops: cat(calls(3, false, 0, 5), calls(2, true, 0, 5), calls(2, true, 3, 5), calls(2, true, 3, 3), calls(2, true, 4, 3))})
	// saturation: more than maxPenalty failures on one client (the other is busy), then successes, then the second client
	c = append(c, desc{Kind: "hist", N0: 2, Ops: cat(calls(305, false, 0, 1000), calls(3, true, 0, 1000), calls(2, false, 0, 1000), calls(3, true, 0, 0), calls(2, false, 0, 0))})
	c = append(c, desc{Kind: "hist", N0: 1, HC: true, Ops: cat(calls(299, false), calls(1, false), calls(1, false), calls(1, true), calls(2, false))})
	// timed: batches of failures around the 3 s deadline (1 s margins), saturation then expiry, removed client
	c = append(c, desc{Kind: "hist", N0: 2, Timed: true, Ops: cat(calls(3, false), at(2000), calls(2, false), calls(1, true), at(4000), calls(1, true), at(6500), calls(2, false), calls(1, true))})
	c = append(c, desc{Kind: "hist", N0: 1, Timed: true, Ops: cat(calls(305, false), calls(1, true), at(1500), calls(1, false), at(4000), calls(2, false), at(5500), at(8000), calls(1, true))})
	c = append(c, desc{Kind: "hist", N0: 3, Timed: true, HC: true, Ops: cat(calls(6, false), rm(1), at(2000), add, calls(4, false), at(4000), calls(3, true), rm(0), at(6500), calls(3, true))})
	c = append(c, desc{Kind: "hist", N0: 2, Timed: true, Ops: cat(calls(2, false, 0, 9), at(4500), calls(2, true, 0, 9), calls(1, false, 9, 0), at(6000), at(9000), calls(1, true))})
	// concurrent bursts
	c = append(c, desc{Kind: "stress", N0: 3, G: 16, K: 200, FailPct: []int{100, 0, 50}})
	c = append(c, desc{Kind: "stress", N0: 1, G: 32, K: 100, FailPct: []int{100}})
	c = append(c, desc{Kind: "stress", N0: 4, G: 8, K: 500, FailPct: []int{30, 100, 0, 70}})
	c = append(c, desc{Kind: "stress", N0: 2, G: 64, K: 40, FailPct: []int{100, 100}})
	return c
}

func gen(r *rand.Rand, i int) desc {
	if r.Intn(60) == 0 {
		n := 1 + r.Intn(4)
		fp := make([]int, n)
		for j := range fp {
			fp[j] = hlib.Pick(r, []int{0, 10, 50, 90, 100, 100})
		}
		return desc{Kind: "stress", N0: n, G: 2 + r.Intn(30), K: 20 + r.Intn(200), FailPct: fp}
	}
	d := desc{Kind: "hist", N0: r.Intn(5), HC: r.Intn(4) == 0}
	nclients := d.N0
	if r.Intn(40) == 0 {
		// saturation run
		d.N0 = 1 + r.Intn(2)
		d.Ops = cat(calls(295+r.Intn(12), false, 0, 1000), calls(r.Intn(4), true, 0, 1000), calls(r.Intn(8), false, 0, 1000), calls(r.Intn(4), r.Intn(2) == 0, 0, 0))
		return d
	}
	nops := r.Intn(45)
	pHealthy := hlib.Pick(r, []int{0, 30, 60, 60, 90, 100})
	pendMax := hlib.Pick(r, []int{0, 0, 1, 2, 5})
	for k := 0; k < nops; k++ {
		switch x := r.Intn(100); {
		case x < 8:
			d.Ops = append(d.Ops, opD{Op: "add"})
			nclients++
		case x < 15 && nclients > 0:
			var rm []int
			for id := 0; id < nclients; id++ {
				if r.Intn(3) == 0 {
					rm = append(rm, id)
				}
			}
			if r.Intn(10) == 0 {
				rm = nil
				for id := 0; id < nclients; id++ {
					rm = append(rm, id)
				}
			}
			d.Ops = append(d.Ops, opD{Op: "remove", Rm: rm})
		default:
			var pend []int
			if pendMax > 0 {
				for id := 0; id < nclients; id++ {
					pend = append(pend, r.Intn(pendMax+1))
				}
			}
			d.Ops = append(d.Ops, opD{Op: "call", Healthy: r.Intn(100) < pHealthy, Pend: pend})
		}
	}
	return d
}

func main() {
	hlib.Main(hlib.Prop[desc]{
		ID:       "C40",
		Imports:  "From FH Require Import Model.Base Model.LB Spec.LBSpec Check.C40Check.",
		CaseType: "c40case",
		CorrOK:   "corr_ok",
		PropOK:   "prop_ok",
		Rule: "corpus (no clients: zero value / all removed / re-added; AddClient before the lazy init; ties on load and on total; penalties as load; saturation beyond maxPenalty; " +
			"four timed histories around the real 3 s penalty timers with 1 s margins; concurrent bursts) then seeded random sequential histories over 0-4 initial fake clients: " +
			"calls with scripted health verdicts (default and custom HealthCheck) and scripted PendingRequests, AddClient, RemoveClients (subsets, everything), saturation runs, and random concurrent bursts; " +
			"a case is non-trivial per distinct (initial clients, call count class, no-client errors, clients created, max penalty class, HealthCheck kind)",
		Corpus:   corpus,
		Gen:      gen,
		Run:      run,
		ShardLen: 100,
	})
}
