// Correspondence harness for C40 (LBClient routes to the least-loaded client and penalties stay bounded).
//
// "hist" cases replay a sequential history (calls with scripted health verdicts and scripted PendingRequests of fake
// BalancingClients, AddClient, RemoveClients, waits) on a real LBClient and record, after every operation, the routing order,
// the penalty and total counters (verif export) and which fake served the call.  Histories with waits ("timed") use the real
// 3-second penalty timers: they are few, built with one-second safety margins around every timer deadline, and all of them run
// concurrently once (about 7 s wall-clock in total).  "stress" cases fire concurrent calls and check the settled counters.
package main

import (
	"encoding/json"
	"errors"
	"fmt"
	"math/rand"
	"sync"
	"sync/atomic"
	"time"

	"github.com/valyala/fasthttp"
	"verif/harness/hlib"
)

type opD struct {
	Op      string `json:"op"` // call | begin | end | add | remove | at
	Pend    []int  `json:"pend,omitempty"`
	Healthy bool   `json:"healthy,omitempty"`
	Rm      []int  `json:"rm,omitempty"`
	Tid     int    `json:"tid,omitempty"` // end: number of the call (calls and begins are numbered from 0)
	T       int64  `json:"t,omitempty"` // at: milliseconds since the start of the history
}

type desc struct {
	Kind  string `json:"kind"` // hist | stress
	N0    int    `json:"n0"`
	HC    bool   `json:"hc,omitempty"` // custom HealthCheck (verdict independent of the error) instead of the default err == nil
	Ops   []opD  `json:"ops,omitempty"`
	Timed bool   `json:"timed,omitempty"`
	// stress
	G       int   `json:"g,omitempty"`
	K       int   `json:"k,omitempty"`
	FailPct []int `json:"failpct,omitempty"`
	Mut     int   `json:"mut,omitempty"` // stress: rounds of concurrent AddClient / RemoveClients while the calls run
}

var errFake = errors.New("fake client failure")

type callCtx struct {
	entered chan int  // the fake that was entered
	release chan bool // verdict
	done    chan callRes
	healthy atomic.Bool
	id      int
}

type callRes struct {
	err      error
	panicked string
}

type world struct {
	healthy atomic.Bool
	chosen  atomic.Int64
	hc      bool
	mu      sync.Mutex
	blocked map[*fasthttp.Request]*callCtx
}

func (w *world) ctxOf(req *fasthttp.Request) *callCtx {
	w.mu.Lock()
	defer w.mu.Unlock()
	return w.blocked[req]
}

type fake struct {
	id      int
	w       *world
	pending atomic.Int32
	calls   atomic.Int64
	fails   atomic.Int64
	failPct int // stress mode
	stress  bool
	reads   atomic.Int32 // PendingRequests() calls since the last reset: get must read every client exactly once
}

func (f *fake) DoDeadline(req *fasthttp.Request, resp *fasthttp.Response, deadline time.Time) error {
	n := f.calls.Add(1)
	if f.stress {
		f.pending.Add(1)
		defer f.pending.Add(-1)
		if int((n*7+int64(f.id)*13)%100) < f.failPct {
			f.fails.Add(1)
			return errFake
		}
		return nil
	}
	f.w.chosen.Store(int64(f.id))
	if ctx := f.w.ctxOf(req); ctx != nil {
		// a call the history keeps in flight: report where it landed, wait for the verdict
		ctx.entered <- f.id
		healthy := <-ctx.release
		if f.w.hc {
			if n%2 == 0 {
				return errFake
			}
			return nil
		}
		if healthy {
			return nil
		}
		return errFake
	}
	if f.w.hc {
		// the verdict comes from HealthCheck; make the error disagree with it half of the time
		if n%2 == 0 {
			return errFake
		}
		return nil
	}
	if f.w.healthy.Load() {
		return nil
	}
	return errFake
}

func (f *fake) PendingRequests() int {
	if !f.stress && f.reads.Add(1) > 1 {
		return int(f.pending.Load()) + 1000 // a second read inside one get() sees a different load
	}
	return int(f.pending.Load())
}

func zlist(xs []int64) string {
	it := make([]string, len(xs))
	for i, x := range xs {
		it[i] = hlib.Z(x)
	}
	return hlib.List(it)
}

func natlist(xs []int) string {
	it := make([]string, len(xs))
	for i, x := range xs {
		it[i] = fmt.Sprintf("%d%%nat", x)
	}
	return hlib.List(it)
}

func observe(lb *fasthttp.LBClient, choice int, errc int) string {
	cl, pens, tots := fasthttp.VerifLBState(lb)
	ids := make([]int, len(cl))
	ps := make([]int64, len(cl))
	ts := make([]int64, len(cl))
	for i := range cl {
		ids[i] = cl[i].(*fake).id
		ps[i] = int64(pens[i])
		ts[i] = int64(tots[i])
	}
	ch := hlib.None()
	if choice >= 0 {
		ch = hlib.Some(fmt.Sprintf("%d%%nat", choice))
	}
	return hlib.App("Ob", natlist(ids), zlist(ps), zlist(ts), ch, hlib.N(uint64(errc)))
}

func lbLen(lb *fasthttp.LBClient) int {
	cl, _, _ := fasthttp.VerifLBState(lb)
	return len(cl)
}

func runHistOnce(d desc) (coq string, sig string, elapsed time.Duration) {
	w := &world{hc: d.HC, blocked: map[*fasthttp.Request]*callCtx{}}
	var inflight []*callCtx // by call number; nil for calls that were not kept in flight
	var fakes []*fake
	newFake := func() *fake {
		f := &fake{id: len(fakes), w: w}
		fakes = append(fakes, f)
		return f
	}
	lb := &fasthttp.LBClient{}
	for i := 0; i < d.N0; i++ {
		lb.Clients = append(lb.Clients, newFake())
	}
	if d.HC {
		lb.HealthCheck = func(req *fasthttp.Request, resp *fasthttp.Response, err error) bool {
			if ctx := w.ctxOf(req); ctx != nil {
				return ctx.healthy.Load()
			}
			return w.healthy.Load()
		}
	}
	req := fasthttp.AcquireRequest()
	resp := fasthttp.AcquireResponse()
	defer fasthttp.ReleaseRequest(req)
	defer fasthttp.ReleaseResponse(resp)
	start := time.Now()
	items := make([]string, 0, len(d.Ops))
	ncall, nnoc, maxpen := 0, 0, int64(0)
	for i, op := range d.Ops {
		var opc, ob string
		switch op.Op {
		case "call", "begin":
			for j, f := range fakes {
				p := 0
				if j < len(op.Pend) {
					p = op.Pend[j]
				}
				f.pending.Store(int32(p))
				f.reads.Store(0)
			}
			if op.Op == "begin" {
				ctx := &callCtx{entered: make(chan int, 1), release: make(chan bool, 1), done: make(chan callRes, 1), id: -1}
				breq, bresp := fasthttp.AcquireRequest(), fasthttp.AcquireResponse()
				w.mu.Lock()
				w.blocked[breq] = ctx
				w.mu.Unlock()
				kind := i % 3
				go func() {
					var err error
					p := hlib.Protect(func() {
						switch kind {
						case 0:
							err = lb.Do(breq, bresp)
						case 1:
							err = lb.DoTimeout(breq, bresp, time.Minute)
						default:
							err = lb.DoDeadline(breq, bresp, time.Now().Add(time.Minute))
						}
					})
					ctx.done <- callRes{err, p}
				}()
				errc := 0
				select {
				case id := <-ctx.entered:
					ctx.id = id
					inflight = append(inflight, ctx)
				case r := <-ctx.done:
					inflight = append(inflight, nil)
					switch {
					case r.panicked != "":
						errc = 2
					case errors.Is(r.err, fasthttp.ErrNoAvailableClients):
						errc = 1
						nnoc++
					default:
						errc = 3
					}
				}
				ncall++
				pend := make([]int64, len(fakes))
				for j := range fakes {
					if j < len(op.Pend) {
						pend[j] = int64(op.Pend[j])
					}
				}
				opc = hlib.App("OBegin", zlist(pend))
				ob = observe(lb, ctx.id, errc)
				break
			}
			inflight = append(inflight, nil)
			w.healthy.Store(op.Healthy)
			w.chosen.Store(-1)
			var err error
			p := hlib.Protect(func() {
				switch i % 3 {
				case 0:
					err = lb.Do(req, resp)
				case 1:
					err = lb.DoTimeout(req, resp, time.Second)
				default:
					err = lb.DoDeadline(req, resp, time.Now().Add(time.Second))
				}
			})
			errc := 0
			switch {
			case p != "":
				errc = 2
			case errors.Is(err, fasthttp.ErrNoAvailableClients):
				errc = 1
				nnoc++
			case !d.HC && (err == nil) != op.Healthy:
				errc = 3 // the caller must get the wrapped client's result
			}
			ncall++
			pend := make([]int64, len(fakes))
			for j := range fakes {
				if j < len(op.Pend) {
					pend[j] = int64(op.Pend[j])
				}
			}
			opc = hlib.App("OCall", zlist(pend), hlib.Bool(op.Healthy))
			ob = observe(lb, int(w.chosen.Load()), errc)
		case "end":
			if op.Tid >= len(inflight) || inflight[op.Tid] == nil {
				continue // that call found no client and ended at once
			}
			ctx := inflight[op.Tid]
			ctx.healthy.Store(op.Healthy)
			ctx.release <- op.Healthy
			r := <-ctx.done
			inflight[op.Tid] = nil
			errc := 0
			if r.panicked != "" {
				errc = 2
			} else if !d.HC && (r.err == nil) != op.Healthy {
				errc = 3 // the caller must get the wrapped client's result
			}
			opc = hlib.App("OEnd", fmt.Sprintf("%d%%nat", op.Tid), hlib.Bool(op.Healthy))
			ob = observe(lb, ctx.id, errc)
		case "add":
			errc := 0
			if n := lb.AddClient(newFake()); n != lbLen(lb) {
				errc = 3 // AddClient returns the new number of clients
			}
			opc = "OAdd"
			ob = observe(lb, -1, errc)
		case "remove":
			rm := map[int]bool{}
			for _, id := range op.Rm {
				rm[id] = true
			}
			errc := 0
			if n := lb.RemoveClients(func(c fasthttp.BalancingClient) bool { return rm[c.(*fake).id] }); n != lbLen(lb) {
				errc = 3
			}
			opc = hlib.App("ORemove", natlist(op.Rm))
			ob = observe(lb, -1, errc)
		case "at":
			time.Sleep(time.Until(start.Add(time.Duration(op.T) * time.Millisecond)))
			opc = hlib.App("OAt", hlib.Z(op.T*1000000))
			ob = observe(lb, -1, 0)
		default:
			panic("bad op " + op.Op)
		}
		items = append(items, hlib.Tuple(opc, ob))
	}
	for _, ctx := range inflight { // let the calls the history left in flight finish
		if ctx != nil {
			ctx.release <- true
			<-ctx.done
		}
	}
	_, pens, _ := fasthttp.VerifLBState(lb)
	for _, p := range pens {
		if int64(p) > maxpen {
			maxpen = int64(p)
		}
	}
	elapsed = time.Since(start)
	coq = hlib.App("CHist", fmt.Sprintf("%d%%nat", d.N0), hlib.List(items))
	sig = fmt.Sprintf("hist-n%d-calls%d-noc%d-clients%d-maxpen%d-hc%v-t%v", d.N0, ncall/4, nnoc, len(fakes), maxpen/50, d.HC, d.Timed)
	return coq, sig, elapsed
}

func runHist(d desc) hlib.Case {
	var coq, sig string
	for try := 0; try < 4; try++ {
		var el time.Duration
		coq, sig, el = runHistOnce(d)
		// an untimed history must finish long before the first penalty timer (3 s) can fire
		if d.Timed || el < 1500*time.Millisecond {
			break
		}
	}
	kind := "hist"
	if d.Timed {
		kind = "hist-timed"
	}
	return hlib.Case{Coq: coq, Sig: sig, Kind: kind, Size: len(d.Ops)}
}

func runStress(d desc) hlib.Case {
	var coq string
	for try := 0; try < 4; try++ {
		var fakes []*fake
		lb := &fasthttp.LBClient{}
		for i := 0; i < d.N0; i++ {
			f := &fake{id: i, stress: true, failPct: d.FailPct[i%len(d.FailPct)]}
			fakes = append(fakes, f)
			lb.Clients = append(lb.Clients, f)
		}
		start := time.Now()
		var wg sync.WaitGroup
		var bad atomic.Int64
		for g := 0; g < d.G; g++ {
			wg.Add(1)
			go func(g int) {
				defer wg.Done()
				req := fasthttp.AcquireRequest()
				resp := fasthttp.AcquireResponse()
				for k := 0; k < d.K; k++ {
					var err error
					p := hlib.Protect(func() {
						switch (g + k) % 3 {
						case 0:
							err = lb.Do(req, resp)
						case 1:
							err = lb.DoTimeout(req, resp, time.Second)
						default:
							err = lb.DoDeadline(req, resp, time.Now().Add(time.Second))
						}
					})
					if p != "" || (err != nil && !errors.Is(err, errFake) && !errors.Is(err, fasthttp.ErrNoAvailableClients)) {
						bad.Add(1)
					}
				}
				fasthttp.ReleaseRequest(req)
				fasthttp.ReleaseResponse(resp)
			}(g)
		}
		if d.Mut > 0 {
			// membership changes while the calls run: add fresh fakes, remove pseudo-random subsets (sometimes everything)
			wg.Add(1)
			go func() {
				defer wg.Done()
				var mu sync.Mutex
				for m := 0; m < d.Mut; m++ {
					if p := hlib.Protect(func() {
						switch m % 4 {
						case 0, 2:
							mu.Lock()
							f := &fake{id: len(fakes), stress: true, failPct: d.FailPct[(len(fakes)+m)%len(d.FailPct)]}
							fakes = append(fakes, f)
							mu.Unlock()
							lb.AddClient(f)
						case 1:
							lb.RemoveClients(func(c fasthttp.BalancingClient) bool { return (c.(*fake).id+m)%3 == 0 })
						default:
							if m%16 == 3 {
								lb.RemoveClients(func(c fasthttp.BalancingClient) bool { return true })
							} else {
								lb.RemoveClients(func(c fasthttp.BalancingClient) bool { return (c.(*fake).id*7+m)%5 == 0 })
							}
						}
					}); p != "" {
						bad.Add(1)
					}
					time.Sleep(50 * time.Microsecond)
				}
			}()
		}
		wg.Wait()
		el := time.Since(start)
		// the counters of the clients that are still balanced (removed ones are no longer reachable)
		cl, pens, tots := fasthttp.VerifLBState(lb)
		calls := make([]int64, len(cl))
		fails := make([]int64, len(cl))
		ps := make([]int64, len(cl))
		ts := make([]int64, len(cl))
		for i, c := range cl {
			f := c.(*fake)
			calls[i], fails[i], ps[i], ts[i] = f.calls.Load(), f.fails.Load(), int64(pens[i]), int64(tots[i])
		}
		coq = hlib.App("CStress", hlib.Z(bad.Load()), zlist(calls), zlist(fails), zlist(ps), zlist(ts))
		if el < 1500*time.Millisecond {
			break
		}
	}
	return hlib.Case{Coq: coq, Sig: fmt.Sprintf("stress-n%d-g%d-k%d-%v-m%d", d.N0, d.G, d.K, d.FailPct, d.Mut), Kind: "stress", Size: d.G * d.K}
}

// timed histories all run concurrently the first time one of them is asked for
var timedOnce sync.Once
var timedRes = map[string]hlib.Case{}

func key(d desc) string { b, _ := json.Marshal(d); return string(b) }

func run(d desc) hlib.Case {
	switch d.Kind {
	case "stress":
		return runStress(d)
	case "hist":
		if !d.Timed {
			return runHist(d)
		}
		timedOnce.Do(func() {
			var mu sync.Mutex
			var wg sync.WaitGroup
			for _, td := range corpus() {
				if td.Timed {
					wg.Add(1)
					go func(td desc) {
						defer wg.Done()
						c := runHist(td)
						mu.Lock()
						timedRes[key(td)] = c
						mu.Unlock()
					}(td)
				}
			}
			wg.Wait()
		})
		if c, ok := timedRes[key(d)]; ok {
			return c
		}
		return runHist(d)
	}
	panic("bad kind " + d.Kind)
}

// ---- generators ------------------------------------------------------------------------------------------

func calls(n int, healthy bool, pend ...int) []opD {
	var o []opD
	for i := 0; i < n; i++ {
		o = append(o, opD{Op: "call", Healthy: healthy, Pend: pend})
	}
	return o
}

func cat(xs ...[]opD) []opD {
	var o []opD
	for _, x := range xs {
		o = append(o, x...)
	}
	return o
}

func corpus() []desc {
	var c []desc
	at := func(ms int64) []opD { return []opD{{Op: "at", T: ms}} }
	add := []opD{{Op: "add"}}
	rm := func(ids ...int) []opD { return []opD{{Op: "remove", Rm: ids}} }
	// no clients: zero value, everything removed, removed then added
	c = append(c, desc{Kind: "hist", N0: 0, Ops: calls(3, true)})
	c = append(c, desc{Kind: "hist", N0: 0, Ops: cat(calls(1, false), add, calls(2, true), rm(0), calls(2, true), add, calls(1, false))})
	c = append(c, desc{Kind: "hist", N0: 2, Ops: cat(rm(0, 1), calls(2, true), calls(1, true), rm(0, 1), calls(2, false))})
	c = append(c, desc{Kind: "hist", N0: 3, Ops: cat(calls(4, true), rm(0, 1, 2), calls(2, true), add, calls(2, true))})
	// AddClient before the first call: lazy init appends the configured Clients after it
	c = append(c, desc{Kind: "hist", N0: 2, Ops: cat(add, calls(4, true), add, calls(3, false), calls(3, true))})
	c = append(c, desc{Kind: "hist", N0: 2, Ops: cat(add, rm(2), add, calls(5, true))})
	// ties: equal loads -> fewest total, first wins; pending differences; penalties as load
	c = append(c, desc{Kind: "hist", N0: 3, Ops: cat(calls(7, true), calls(2, true, 1, 0, 0), calls(2, true, 0, 2, 0), calls(3, false), calls(6, true), calls(2, true, 3, 3, 3))})
	c = append(c, desc{Kind: "hist", N0: 3, HC: true, Ops: cat(calls(5, false), calls(5, true), calls(3, false, 2, 2, 0), calls(4, true, 0, 1, 1))})
	c = append(c, desc{Kind: "hist", N0: 2, Ops: cat(calls(3, false, 0, 5), calls(2, true, 0, 5), calls(2, true, 3, 5), calls(2, true, 3, 3), calls(2, true, 4, 3))})
	// saturation: more than maxPenalty failures on one client (the other is busy), then successes, then the second client
	c = append(c, desc{Kind: "hist", N0: 2, Ops: cat(calls(305, false, 0, 1000), calls(3, true, 0, 1000), calls(2, false, 0, 1000), calls(3, true, 0, 0), calls(2, false, 0, 0))})
	c = append(c, desc{Kind: "hist", N0: 1, HC: true, Ops: cat(calls(299, false), calls(1, false), calls(1, false), calls(1, true), calls(2, false))})
	// timed: batches of failures around the 3 s deadline (1 s margins), saturation then expiry, removed client
	c = append(c, desc{Kind: "hist", N0: 2, Timed: true, Ops: cat(calls(3, false), at(2000), calls(2, false), calls(1, true), at(4000), calls(1, true), at(6500), calls(2, false), calls(1, true))})
	c = append(c, desc{Kind: "hist", N0: 1, Timed: true, Ops: cat(calls(305, false), calls(1, true), at(1500), calls(1, false), at(4000), calls(2, false), at(5500), at(8000), calls(1, true))})
	c = append(c, desc{Kind: "hist", N0: 3, Timed: true, HC: true, Ops: cat(calls(6, false), rm(1), at(2000), add, calls(4, false), at(4000), calls(3, true), rm(0), at(6500), calls(3, true))})
	c = append(c, desc{Kind: "hist", N0: 2, Timed: true, Ops: cat(calls(2, false, 0, 9), at(4500), calls(2, true, 0, 9), calls(1, false, 9, 0), at(6000), at(9000), calls(1, true))})
	// calls kept in flight while the membership changes: the client of a blocked call is removed, everything is removed,
	// clients are added; the blocked calls then fail or succeed in another order
	begin := func(pend ...int) []opD { return []opD{{Op: "begin", Pend: pend}} }
	end := func(tid int, healthy bool) []opD { return []opD{{Op: "end", Tid: tid, Healthy: healthy}} }
	c = append(c, desc{Kind: "hist", N0: 2, Ops: cat(begin(), begin(), rm(0), calls(2, true), end(0, false), end(1, false), add, calls(3, false), calls(2, true))})
	c = append(c, desc{Kind: "hist", N0: 2, Ops: cat(begin(), rm(0, 1), calls(1, true), begin(), end(0, true), add, begin(), end(2, false), calls(2, true))})
	c = append(c, desc{Kind: "hist", N0: 3, HC: true, Ops: cat(begin(1, 0, 0), begin(1, 0, 0), begin(1, 1, 0), end(2, false), end(0, true), calls(2, true, 0, 0, 0), end(1, false), calls(3, true))})
	c = append(c, desc{Kind: "hist", N0: 1, Ops: cat(calls(299, false), begin(), begin(), begin(), end(301, false), end(299, false), end(300, false), calls(1, true), calls(1, false))})
	c = append(c, desc{Kind: "hist", N0: 0, Ops: cat(begin(), add, begin(), add, begin(0, 0), end(1, false), end(2, true), rm(0), calls(2, true))})
	// concurrent bursts
	c = append(c, desc{Kind: "stress", N0: 3, G: 16, K: 200, FailPct: []int{100, 0, 50}})
	c = append(c, desc{Kind: "stress", N0: 1, G: 32, K: 100, FailPct: []int{100}})
	c = append(c, desc{Kind: "stress", N0: 4, G: 8, K: 500, FailPct: []int{30, 100, 0, 70}})
	c = append(c, desc{Kind: "stress", N0: 2, G: 64, K: 40, FailPct: []int{100, 100}})
	// ... with AddClient / RemoveClients running at the same time (sometimes leaving no client at all)
	c = append(c, desc{Kind: "stress", N0: 3, G: 16, K: 300, FailPct: []int{100, 0, 50}, Mut: 200})
	c = append(c, desc{Kind: "stress", N0: 0, G: 8, K: 400, FailPct: []int{100}, Mut: 300})
	c = append(c, desc{Kind: "stress", N0: 1, G: 32, K: 100, FailPct: []int{60, 100, 0}, Mut: 150})
	return c
}

func gen(r *rand.Rand, i int) desc {
	if r.Intn(60) == 0 {
		n := 1 + r.Intn(4)
		fp := make([]int, n)
		for j := range fp {
			fp[j] = hlib.Pick(r, []int{0, 10, 50, 90, 100, 100})
		}
		d := desc{Kind: "stress", N0: n, G: 2 + r.Intn(30), K: 20 + r.Intn(200), FailPct: fp}
		if r.Intn(2) == 0 {
			d.N0 = r.Intn(4)
			d.Mut = 20 + r.Intn(200)
		}
		return d
	}
	d := desc{Kind: "hist", N0: r.Intn(5), HC: r.Intn(4) == 0}
	nclients := d.N0
	if r.Intn(40) == 0 {
		// saturation run
		d.N0 = 1 + r.Intn(2)
		d.Ops = cat(calls(295+r.Intn(12), false, 0, 1000), calls(r.Intn(4), true, 0, 1000), calls(r.Intn(8), false, 0, 1000), calls(r.Intn(4), r.Intn(2) == 0, 0, 0))
		return d
	}
	nops := r.Intn(45)
	ncalls := 0
	var open []int // numbers of the calls currently kept in flight
	pInflight := hlib.Pick(r, []int{0, 0, 15, 30})
	pHealthy := hlib.Pick(r, []int{0, 30, 60, 60, 90, 100})
	pendMax := hlib.Pick(r, []int{0, 0, 1, 2, 5})
	for k := 0; k < nops; k++ {
		switch x := r.Intn(100); {
		case x < 8:
			d.Ops = append(d.Ops, opD{Op: "add"})
			nclients++
		case x < 15 && nclients > 0:
			var rm []int
			for id := 0; id < nclients; id++ {
				if r.Intn(3) == 0 {
					rm = append(rm, id)
				}
			}
			if r.Intn(10) == 0 {
				rm = nil
				for id := 0; id < nclients; id++ {
					rm = append(rm, id)
				}
			}
			d.Ops = append(d.Ops, opD{Op: "remove", Rm: rm})
		case x < 15+pInflight/2 && len(open) > 0:
			j := r.Intn(len(open))
			d.Ops = append(d.Ops, opD{Op: "end", Tid: open[j], Healthy: r.Intn(100) < pHealthy})
			open = append(open[:j], open[j+1:]...)
		default:
			var pend []int
			if pendMax > 0 {
				for id := 0; id < nclients; id++ {
					pend = append(pend, r.Intn(pendMax+1))
				}
			}
			if r.Intn(100) < pInflight {
				d.Ops = append(d.Ops, opD{Op: "begin", Pend: pend})
				open = append(open, ncalls) // if there is no client the call ends at once: such an "end" is dropped below
			} else {
				d.Ops = append(d.Ops, opD{Op: "call", Healthy: r.Intn(100) < pHealthy, Pend: pend})
			}
			ncalls++
		}
	}
	return d
}

func main() {
	hlib.Main(hlib.Prop[desc]{
		ID:       "C40",
		Imports:  "From FH Require Import Model.Base Model.LB Spec.LBSpec Check.C40Check.",
		CaseType: "c40case",
		CorrOK:   "corr_ok",
		PropOK:   "prop_ok",
		Rule: "corpus (no clients: zero value / all removed / re-added; AddClient before the lazy init; ties on load and on total; penalties as load; saturation beyond maxPenalty; " +
			"four timed histories around the real 3 s penalty timers with 1 s margins; concurrent bursts) then seeded random sequential histories over 0-4 initial fake clients: " +
			"calls with scripted health verdicts (default and custom HealthCheck) and scripted PendingRequests, AddClient, RemoveClients (subsets, everything), saturation runs, and random concurrent bursts; " +
			"a case is non-trivial per distinct (initial clients, call count class, no-client errors, clients created, max penalty class, HealthCheck kind)",
		Corpus:   corpus,
		Gen:      gen,
		Run:      run,
		ShardLen: 100,
	})
}
