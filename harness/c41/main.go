// Correspondence harness for C41 (TCPDialer: concurrency bound, address rotation, dial timeout).
//
// Endpoints are loopback addresses 127.0.0.(10+k):P behind a fake Resolver:
//   accept = a listener that accepts and closes; refuse = nothing listens (ECONNREFUSED);
//   hang   = a raw listener with backlog 0 whose queue is filled by one connection: further SYNs are dropped.
// Case kinds:
//   dial    phases (what every address does, Dial calls at given offsets) on one TCPDialer; results (class + which address) and durations
//   stress  M concurrent dials on a dialer with Concurrency N against hanging (or accepting) endpoints; the number of
//           connects in progress is sampled from outside by counting SYN_SENT sockets in /proc/net/tcp
//   consts  DefaultDialTimeout, DefaultDNSCacheDuration
package main

import (
	"context"
	"errors"
	"fmt"
	"math/rand"
	"net"
	"os"
	"strconv"
	"strings"
	"sync"
	"sync/atomic"
	"syscall"
	"time"

	"github.com/valyala/fasthttp"
	"verif/harness/hlib"
)

type start struct {
	Off int `json:"off"` // ms after the start of the phase
	T   int `json:"t"`   // thread id
	To  int `json:"to"`  // timeout ms
}
type phaseD struct {
	Oracle string  `json:"oracle"`           // one letter per address: a r h
	SetIdx *uint32 `json:"setidx,omitempty"` // force e.addrsIdx before the phase
	Renew  string  `json:"renew,omitempty"`  // "flush" (FlushDNSCache) | "expire" (wait past DNSCacheDuration): the entry is re-resolved
	NewN   int     `json:"newn,omitempty"`   // ... and the Resolver now returns this many addresses (0 = unchanged)
	Res    string  `json:"res,omitempty"`    // what the Resolver does if consulted in this phase: "" ok | "err" | "hang"
	Starts []start `json:"starts"`
}
type desc struct {
	Kind   string   `json:"kind"` // dial | stress | consts
	Cap    int      `json:"cap"`
	N      int      `json:"n"`
	Phases []phaseD `json:"phases,omitempty"`
	M      int      `json:"m,omitempty"`
	To     int      `json:"to,omitempty"`
	Acc    bool     `json:"acc,omitempty"`
	// which entry point / configuration (dial cases)
	API   string `json:"api,omitempty"`   // "" DialTimeout | "dial" Dial (DefaultDialTimeout) | "dual" DialDualStackTimeout | "dualdial" DialDualStack
	NoDNS bool   `json:"nodns,omitempty"` // DisableDNSResolution: the address is dialled as given (N must be 1)
	Pkg   bool   `json:"pkg,omitempty"`   // package-level fasthttp.DialTimeout etc. (default dialer, IP literal, N must be 1)
	V6    int    `json:"v6,omitempty"`    // the Resolver also returns this many IPv6 addresses first: skipped unless dual stack
}

type fakeResolver struct {
	mu    sync.Mutex
	ips   []net.IPAddr
	mode  string // "" | "err" | "hang"
	calls int
}

var errFakeResolver = errors.New("verif: resolver failure")

func (f *fakeResolver) LookupIPAddr(ctx context.Context, host string) ([]net.IPAddr, error) {
	f.mu.Lock()
	mode, ips := f.mode, f.ips
	f.calls++
	f.mu.Unlock()
	switch mode {
	case "err":
		return nil, errFakeResolver
	case "hang": // like net.Resolver: gives up when its context does
		<-ctx.Done()
		return nil, ctx.Err()
	}
	return ips, nil
}
func (f *fakeResolver) set(mode string, ips []net.IPAddr) {
	f.mu.Lock()
	f.mode = mode
	if ips != nil {
		f.ips = ips
	}
	f.mu.Unlock()
}

func ipList(n, v6 int) []net.IPAddr {
	var ips []net.IPAddr
	for k := 0; k < v6; k++ {
		ips = append(ips, net.IPAddr{IP: net.ParseIP("::1")})
	}
	for k := 0; k < n; k++ {
		ips = append(ips, net.IPAddr{IP: ipOf(k)})
	}
	return ips
}

func ipOf(k int) net.IP { return net.IPv4(127, 0, 0, byte(10+k)) }

var portCounter = int32(20000 + os.Getpid()%20000)

type endpoint struct {
	ln     net.Listener
	fd     int
	filler net.Conn
	stop   chan struct{}
}

func (e *endpoint) close() {
	if e.ln != nil {
		e.ln.Close()
	}
	if e.filler != nil {
		e.filler.Close()
	}
	if e.fd > 0 {
		syscall.Close(e.fd)
	}
}

func mkEndpoint(kind byte, k, port int) (*endpoint, error) {
	e := &endpoint{}
	addr := net.JoinHostPort(ipOf(k).String(), strconv.Itoa(port))
	switch kind {
	case 'a':
		ln, err := net.Listen("tcp4", addr)
		if err != nil {
			return nil, err
		}
		e.ln = ln
		go func() {
			for {
				c, err := ln.Accept()
				if err != nil {
					return
				}
				c.Close()
			}
		}()
	case 'h':
		fd, err := syscall.Socket(syscall.AF_INET, syscall.SOCK_STREAM, 0)
		if err != nil {
			return nil, err
		}
		syscall.SetsockoptInt(fd, syscall.SOL_SOCKET, syscall.SO_REUSEADDR, 1)
		var ip4 [4]byte
		copy(ip4[:], ipOf(k).To4())
		if err := syscall.Bind(fd, &syscall.SockaddrInet4{Port: port, Addr: ip4}); err != nil {
			syscall.Close(fd)
			return nil, err
		}
		if err := syscall.Listen(fd, 0); err != nil {
			syscall.Close(fd)
			return nil, err
		}
		e.fd = fd
		c, err := net.DialTimeout("tcp4", addr, time.Second)
		if err != nil {
			syscall.Close(fd)
			return nil, err
		}
		e.filler = c
		// make sure the queue is really full: a probe must hang
		p, err := net.DialTimeout("tcp4", addr, 30*time.Millisecond)
		if err == nil {
			// the kernel took one more: keep it as filler too
			go func(c net.Conn) { time.Sleep(5 * time.Second); c.Close() }(p)
		}
	case 'r':
		// nothing listens
	}
	return e, nil
}

// endpoints for an oracle; returns the port used
func setup(oracle string, port int) ([]*endpoint, error) {
	var eps []*endpoint
	for k := 0; k < len(oracle); k++ {
		e, err := mkEndpoint(oracle[k], k, port)
		if err != nil {
			for _, x := range eps {
				x.close()
			}
			return nil, err
		}
		eps = append(eps, e)
	}
	return eps, nil
}

func addrIndex(s string) int {
	host, _, err := net.SplitHostPort(s)
	if err != nil {
		return 999
	}
	ip := net.ParseIP(host).To4()
	if ip == nil || ip[0] != 127 {
		return 999
	}
	return int(ip[3]) - 10
}

func classify(c net.Conn, err error) string { return classifyOff(c, err, 0) }

// classifyOff: in dual-stack cases the IPv6 entries come first: address numbers of the IPv4 ones are shifted by off
func classifyOff(c net.Conn, err error, off int) string {
	addrIndex := func(s string) int {
		if host, _, e := net.SplitHostPort(s); e == nil && host == "::1" {
			return 0
		}
		if i := addrIndex(s); i != 999 {
			return i + off
		}
		return 999
	}
	if err == nil {
		idx := addrIndex(c.RemoteAddr().String())
		c.Close()
		return fmt.Sprintf("(Ret (XOk %d))", idx)
	}
	var up *fasthttp.ErrDialWithUpstream
	if !errors.As(err, &up) {
		if errors.Is(err, errFakeResolver) || errors.Is(err, context.DeadlineExceeded) {
			return "(Ret XResolveErr)"
		}
		return "(Ret (XErr 999))"
	}
	if errors.Is(err, fasthttp.ErrDialTimeout) {
		return fmt.Sprintf("(Ret (XTimeout %d))", addrIndex(up.Upstream))
	}
	return fmt.Sprintf("(Ret (XErr %d))", addrIndex(up.Upstream))
}

func oracleCoq(o string) string {
	var it []string
	for i := 0; i < len(o); i++ {
		switch o[i] {
		case 'a':
			it = append(it, "OAccept")
		case 'h':
			it = append(it, "OHang")
		default:
			it = append(it, "ORefuse")
		}
	}
	return hlib.List(it)
}

func newDialer(capn, n int) (*fasthttp.TCPDialer, string, int) {
	port := int(atomic.AddInt32(&portCounter, 1))
	d := &fasthttp.TCPDialer{Concurrency: capn, Resolver: &fakeResolver{ips: ipList(n, 0)}}
	return d, "verif.test:" + strconv.Itoa(port), port
}

// canary measures how late a sleeping goroutine wakes up while a scenario runs: an independent sign that the
// machine is too loaded for the staggered starts and deadlines of the scenario to mean anything.
type canary struct {
	stop   chan struct{}
	done   chan struct{}
	maxLag time.Duration
}

func startCanary() *canary {
	c := &canary{stop: make(chan struct{}), done: make(chan struct{})}
	go func() {
		defer close(c.done)
		for {
			select {
			case <-c.stop:
				return
			default:
			}
			t := time.Now()
			time.Sleep(2 * time.Millisecond)
			if lag := time.Since(t) - 2*time.Millisecond; lag > c.maxLag {
				c.maxLag = lag
			}
		}
	}()
	return c
}
func (c *canary) finish() time.Duration { close(c.stop); <-c.done; return c.maxLag }

// reference dials: a plain net.Dialer with the same timeout against a private hanging endpoint, started together with
// every dial under test.  How late THEY come back is how late this machine delivers a connect deadline right now;
// it does not involve the code under test.
var refOnce sync.Once
var refAddr string

func refSetup() {
	refOnce.Do(func() {
		for try := 0; try < 50; try++ {
			port := int(atomic.AddInt32(&portCounter, 1))
			if _, err := mkEndpoint('h', -1, port); err == nil { // 127.0.0.9
				refAddr = net.JoinHostPort(ipOf(-1).String(), strconv.Itoa(port))
				return
			}
		}
	})
}

// refDial returns how much later than `to` the reference connect came back (or a large value if it did not hang)
func refDial(to time.Duration, out *time.Duration, wg *sync.WaitGroup) {
	defer wg.Done()
	if refAddr == "" || to <= 0 {
		*out = 0
		return
	}
	b := time.Now()
	ctx, cancel := context.WithDeadline(context.Background(), b.Add(to))
	defer cancel()
	var nd net.Dialer
	c, err := nd.DialContext(ctx, "tcp4", refAddr)
	el := time.Since(b)
	if err == nil {
		c.Close()
		*out = time.Hour // the reference endpoint does not hang: nothing can be concluded
		return
	}
	*out = el - to
}

// a dial that has not returned this long after its timeout ran out is recorded as Stuck and abandoned
const stuckSlack = 3 * time.Second

const maxRefLate = 100 * time.Millisecond // the property oracle allows 250 ms

const (
	maxLagSeq  = 60 * time.Millisecond // sequential dials only need the 250 ms slack to hold
	maxLagConc = 8 * time.Millisecond  // staggered starts (25 ms) and deadlines (>= 40 ms apart) must keep their order
	attempts   = 6
)

func unstable(kind string) hlib.Case {
	return hlib.Case{Coq: "CUnstable", Kind: "unstable-" + kind}
}

// runDial repeats the scenario (fresh dialer, fresh port) until one run was not disturbed by machine load;
// a scenario that is disturbed every time is dropped (CUnstable), never reported.
func runDial(d desc) hlib.Case {
	concurrent := false
	for _, ph := range d.Phases {
		if len(ph.Starts) > 1 {
			concurrent = true
		}
	}
	var prev *hlib.Case
	prevSig := ""
	for a := 0; a < attempts; a++ {
		c, rsig, ok := runDialOnce(d)
		if ok {
			if !concurrent || strings.HasSuffix(rsig, "STUCK") {
				return c
			}
			// scenarios whose outcome depends on the order of goroutines must come out the same twice
			// (a real divergence from the model is deterministic and repeats; a scheduling glitch does not)
			if prev != nil && prevSig == rsig {
				return c
			}
			prev, prevSig = &c, rsig
			continue
		}
		time.Sleep(time.Duration(20*(a+1)) * time.Millisecond)
	}
	return unstable("dial")
}

func runDialOnce(d desc) (hlib.Case, string, bool) {
	var dialer *fasthttp.TCPDialer
	var addr string
	var port int
	// find a port that is free on all the addresses we need
	for try := 0; ; try++ {
		dialer, addr, port = newDialer(d.Cap, d.N)
		eps, err := setup(strings.Repeat("a", d.N), port)
		if err == nil {
			for _, e := range eps {
				e.close()
			}
			break
		}
		if try > 50 {
			panic(err)
		}
	}
	var phases []string
	sig := map[string]bool{}
	key := ""
	total := 0
	stable := true
	resSig := ""
	rsv := dialer.Resolver.(*fakeResolver)
	dual := d.API == "dual" || d.API == "dualdial"
	v6 := d.V6
	if dual && v6 > 1 {
		v6 = 1 // there is only one IPv6 loopback address
	}
	rsv.set("", ipList(d.N, v6))
	v6off := 0 // in dual-stack mode the IPv6 entries are addresses 0..v6-1 (nothing listens there: they refuse)
	if dual {
		v6off = v6
	}
	curN := d.N
	if d.NoDNS || d.Pkg {
		curN = 1
		addr = net.JoinHostPort(ipOf(0).String(), strconv.Itoa(port))
		dialer.DisableDNSResolution = d.NoDNS
	}
	expiring := false
	for _, p := range d.Phases {
		if p.Renew == "expire" {
			expiring = true
		}
	}
	if expiring {
		dialer.DNSCacheDuration = 150 * time.Millisecond // otherwise the default (one minute)
	}
	lastResolve := time.Now()
	initN := curN + v6off
	modelCap := d.Cap
	if d.Pkg {
		modelCap = 1000 // defaultDialer
	}
	call := func(to time.Duration) (net.Conn, error) {
		switch {
		case d.Pkg && d.API == "dial":
			return fasthttp.Dial(addr)
		case d.Pkg && d.API == "dual":
			return fasthttp.DialDualStackTimeout(addr, to)
		case d.Pkg && d.API == "dualdial":
			return fasthttp.DialDualStack(addr)
		case d.Pkg:
			return fasthttp.DialTimeout(addr, to)
		case d.API == "dial":
			return dialer.Dial(addr)
		case d.API == "dual":
			return dialer.DialDualStackTimeout(addr, to)
		case d.API == "dualdial":
			return dialer.DialDualStack(addr)
		}
		return dialer.DialTimeout(addr, to)
	}
	defaultTo := d.API == "dial" || d.API == "dualdial"
	for _, ph := range d.Phases {
		if defaultTo { // Dial / DialDualStack: DefaultDialTimeout
			cp := append([]start(nil), ph.Starts...)
			for i := range cp {
				cp[i].To = int(fasthttp.DefaultDialTimeout / time.Millisecond)
			}
			ph.Starts = cp
		}
		renew := "None"
		if ph.Renew != "" && !d.NoDNS && !d.Pkg {
			if ph.NewN > 0 {
				curN = ph.NewN
			}
			rsv.set("", ipList(curN, v6))
			if ph.Renew == "flush" {
				dialer.FlushDNSCache()
			} else {
				time.Sleep(dialer.DNSCacheDuration + 20*time.Millisecond)
			}
			renew = fmt.Sprintf("(Some %d)", curN+v6off)
			lastResolve = time.Now()
		} else if expiring && time.Since(lastResolve) > 100*time.Millisecond {
			return hlib.Case{}, "", false // the machine is so slow that the entry may have expired on its own: run again
		}
		rsv.set(ph.Res, nil)
		oracle := ph.Oracle
		for len(oracle) < curN {
			oracle += "r"
		}
		oracle = oracle[:curN]
		eps, err := setup(oracle, port)
		if err != nil {
			panic(err)
		}
		oracle = strings.Repeat("r", v6off) + oracle
		setidx := "None"
		if ph.SetIdx != nil {
			if fasthttp.VerifC41SetAddrsIdx(dialer, addr, *ph.SetIdx) {
				setidx = fmt.Sprintf("(Some %d)", *ph.SetIdx)
			}
		}
		type res struct {
			t, to int
			r     string
			el    int64
		}
		results := make([]res, len(ph.Starts))
		resCh := make([]chan res, len(ph.Starts))
		began := make([]time.Time, len(ph.Starts))
		late := make([]time.Duration, len(ph.Starts))
		refLate := make([]time.Duration, len(ph.Starts))
		var wg sync.WaitGroup
		refSetup()
		cn := startCanary()
		t0 := time.Now()
		var starts []string
		for i, st := range ph.Starts {
			if w := time.Until(t0.Add(time.Duration(st.Off) * time.Millisecond)); w > 0 {
				time.Sleep(w)
			}
			if strings.Contains(oracle, "h") { // only then does a dial last until its deadline
				wg.Add(1)
				go refDial(time.Duration(st.To)*time.Millisecond, &refLate[i], &wg)
			}
			resCh[i] = make(chan res, 1)
			began[i] = time.Now()
			lateCh := make(chan time.Duration, 1)
			go func(i int, st start) {
				b := time.Now()
				lateCh <- b.Sub(t0.Add(time.Duration(st.Off) * time.Millisecond))
				c, err := call(time.Duration(st.To) * time.Millisecond)
				el := time.Since(b).Milliseconds()
				resCh[i] <- res{st.T, st.To, classifyOff(c, err, v6off), el}
			}(i, st)
			select {
			case late[i] = <-lateCh:
			case <-time.After(stuckSlack):
				late[i] = stuckSlack
			}
			starts = append(starts, fmt.Sprintf("(%d, %d, %d)", st.Off, st.T, st.To))
		}
		// every dial must return within its timeout plus a generous slack; one that does not is Stuck and is abandoned
		stuck := false
		for i, st := range ph.Starts {
			limit := began[i].Add(time.Duration(st.To)*time.Millisecond + stuckSlack)
			select {
			case r := <-resCh[i]:
				results[i] = r
			case <-time.After(time.Until(limit)):
				results[i] = res{st.T, st.To, "Stuck", time.Since(began[i]).Milliseconds()}
				stuck = true
			}
		}
		wg.Wait() // reference dials only: they end at their own deadline
		lag := cn.finish()
		for _, e := range eps {
			e.close()
		}
		if len(ph.Starts) > 1 {
			if lag > maxLagConc {
				stable = false
			}
			for _, l := range late {
				if l > maxLagConc {
					stable = false
				}
			}
		} else if lag > maxLagSeq || late[0] > maxLagSeq {
			stable = false
		}
		for _, l := range refLate {
			if l > maxRefLate {
				stable = false
			}
		}
		if !stable && !stuck { // a stuck dial is a finding of its own, whatever the load
			return hlib.Case{}, "", false
		}
		var rs []string
		for _, r := range results {
			rs = append(rs, fmt.Sprintf("(%d, %d, %s, %d)", r.t, r.to, r.r, r.el))
			resSig += fmt.Sprintf("%d:%s;", r.t, r.r)
			sig[strings.Fields(strings.NewReplacer("(", "", ")", "", "Ret ", "").Replace(r.r))[0]+fmt.Sprint(len(ph.Starts) > 1)+fmt.Sprint(strings.Contains(oracle, "h"))] = true
			total++
		}
		rmode := map[string]string{"": "RGood", "err": "RFail", "hang": "RHangs"}[ph.Res]
		phases = append(phases, fmt.Sprintf("mkPh %s %s %s %s %s %s", oracleCoq(oracle), setidx, renew, rmode, hlib.List(starts), hlib.List(rs)))
		if stuck {
			resSig += "STUCK"
			break // the dialer may be wedged: the history so far is the failing case
		}
	}
	return hlib.Case{
		Coq:  fmt.Sprintf("CDial %d %d %s", modelCap, initN, hlib.List(phases)),
		Key:  key,
		Sig:  fmt.Sprintf("dial:%d:%d:%s:%v:%v:%d:%s", d.Cap, d.N, d.API, d.NoDNS, d.Pkg, d.V6, strings.Join(hlib.SortedKeys(sig), ",")),
		Kind: "dial",
		Size: total,
	}, resSig, true
}

func synSent(port int) int {
	b, err := os.ReadFile("/proc/net/tcp")
	if err != nil {
		return -1
	}
	n := 0
	hexp := fmt.Sprintf(":%04X", port)
	for _, l := range strings.Split(string(b), "\n")[1:] {
		f := strings.Fields(l)
		if len(f) > 3 && strings.HasSuffix(f[2], hexp) && f[3] == "02" {
			n++
		}
	}
	return n
}

func runStress(d desc) hlib.Case {
	for a := 0; a < attempts; a++ {
		if c, ok := runStressOnce(d); ok {
			return c
		}
		time.Sleep(time.Duration(20*(a+1)) * time.Millisecond)
	}
	return unstable("stress")
}

func runStressOnce(d desc) (hlib.Case, bool) {
	dialer, addr, port := newDialer(d.Cap, d.N)
	kind := "h"
	if d.Acc {
		kind = "a"
	}
	var eps []*endpoint
	for try := 0; ; try++ {
		var err error
		eps, err = setup(strings.Repeat(kind, d.N), port)
		if err == nil {
			break
		}
		if try > 50 {
			panic(err)
		}
		dialer, addr, port = newDialer(d.Cap, d.N)
	}
	stop := make(chan struct{})
	maxin := 0
	var sw sync.WaitGroup
	sw.Add(1)
	go func() {
		defer sw.Done()
		for {
			select {
			case <-stop:
				return
			default:
			}
			if n := synSent(port); n > maxin {
				maxin = n
			}
			time.Sleep(time.Millisecond)
		}
	}()
	rs := make([]string, d.M)
	rch := make([]chan string, d.M)
	var wg sync.WaitGroup
	cn := startCanary()
	refSetup()
	var refLate time.Duration
	wg.Add(1)
	go refDial(time.Duration(d.To)*time.Millisecond, &refLate, &wg)
	began := time.Now()
	for i := 0; i < d.M; i++ {
		rch[i] = make(chan string, 1)
		go func(i int) {
			b := time.Now()
			c, err := dialer.DialTimeout(addr, time.Duration(d.To)*time.Millisecond)
			rch[i] <- fmt.Sprintf("(%s, %d)", classify(c, err), time.Since(b).Milliseconds())
		}(i)
	}
	stuck := false
	limit := began.Add(time.Duration(d.To)*time.Millisecond + stuckSlack)
	for i := 0; i < d.M; i++ {
		select {
		case rs[i] = <-rch[i]:
		case <-time.After(time.Until(limit)):
			rs[i] = fmt.Sprintf("(Stuck, %d)", time.Since(began).Milliseconds())
			stuck = true
		}
	}
	wg.Wait() // the reference dial
	lag := cn.finish()
	close(stop)
	sw.Wait()
	for _, e := range eps {
		e.close()
	}
	if (lag > maxLagSeq || refLate > maxRefLate) && !stuck {
		return hlib.Case{}, false
	}
	return hlib.Case{
		Coq:  fmt.Sprintf("CStress %d %d %d %d %s %s", d.Cap, d.N, d.To, maxin, hlib.Bool(d.Acc), hlib.List(rs)),
		Sig:  fmt.Sprintf("stress:%d:%d:%v:%d", d.Cap, d.M, d.Acc, maxin),
		Kind: "stress",
		Size: d.M,
	}, true
}

func run(d desc) hlib.Case {
	switch d.Kind {
	case "dial":
		return runDial(d)
	case "stress":
		return runStress(d)
	case "consts":
		return hlib.Case{Coq: fmt.Sprintf("CConsts %d %d", fasthttp.DefaultDialTimeout.Milliseconds(), fasthttp.DefaultDNSCacheDuration.Milliseconds()), Sig: "consts", Kind: "consts"}
	}
	panic("bad kind")
}

func randOracle(r *rand.Rand, n int, hangs bool) string {
	b := make([]byte, n)
	for i := range b {
		switch x := r.Intn(10); {
		case x < 4:
			b[i] = 'a'
		case x < 9 || !hangs:
			b[i] = 'r'
		default:
			b[i] = 'h'
		}
	}
	return string(b)
}

func gen(r *rand.Rand, i int) desc {
	x := r.Intn(100)
	switch {
	case x < 55: // sequential dials, the oracle changes between them (fault sequence)
		n := 1 + r.Intn(4)
		d := desc{Kind: "dial", Cap: r.Intn(3), N: n}
		np := 2 + r.Intn(6)
		hangBudget := 1
		for p := 0; p < np; p++ {
			o := randOracle(r, n, hangBudget > 0 && r.Intn(4) == 0)
			if strings.Contains(o, "h") {
				hangBudget--
			}
			d.Phases = append(d.Phases, phaseD{Oracle: o, Starts: []start{{0, p, 60 + 10*r.Intn(6)}}})
		}
		switch y := r.Intn(20); {
		case y < 2:
			d.N, d.NoDNS = 1, true
		case y < 3:
			d.N, d.Pkg = 1, true
		case y < 5:
			d.API, d.V6 = "dual", r.Intn(2)
		case y < 7:
			d.V6 = 1 + r.Intn(2)
		case y < 8:
			d.Phases[0].Res = hlib.Pick(r, []string{"err", "hang"})
		case y < 10 && np > 2:
			k := 1 + r.Intn(np-1)
			d.Phases[k].Renew, d.Phases[k].NewN = "flush", 1+r.Intn(4)
		case y < 11: // Dial with the default timeout: no hanging address
			d.API = "dial"
			for i := range d.Phases {
				d.Phases[i].Oracle = strings.ReplaceAll(d.Phases[i].Oracle, "h", "r")
			}
		}
		return d
	case x < 70: // all refuse / one accepts: the full rotation
		n := 2 + r.Intn(4)
		d := desc{Kind: "dial", Cap: r.Intn(2), N: n}
		for p := 0; p < 3+r.Intn(4); p++ {
			o := []byte(strings.Repeat("r", n))
			if r.Intn(2) == 0 {
				o[r.Intn(n)] = 'a'
			}
			d.Phases = append(d.Phases, phaseD{Oracle: string(o), Starts: []start{{0, p, 100}}})
		}
		return d
	case x < 86: // contention on the semaphore: a hanging dial holds it
		capn := 1 + r.Intn(2)
		n := 1 + r.Intn(2)
		d := desc{Kind: "dial", Cap: capn, N: n}
		o := strings.Repeat("h", n)
		var st []start
		tos := []int{190, 70, 130, 250}
		r.Shuffle(len(tos), func(a, b int) { tos[a], tos[b] = tos[b], tos[a] })
		for k := 0; k < capn+1+r.Intn(2); k++ {
			st = append(st, start{Off: 25 * k, T: k, To: tos[k%4]})
		}
		d.Phases = append(d.Phases, phaseD{Oracle: o, Starts: st})
		// afterwards the semaphore must be free again
		d.Phases = append(d.Phases, phaseD{Oracle: strings.Repeat("a", n), Starts: []start{{0, 10, 100}}})
		return d
	case x < 90: // a long wait for the semaphore followed by a connect: the dial must still end at its own deadline
		capn := 1 + r.Intn(2)
		n := 1 + r.Intn(2)
		d := desc{Kind: "dial", Cap: capn, N: n}
		var st []start
		for k := 0; k < capn; k++ { // the holders
			st = append(st, start{Off: 25 * k, T: k, To: 500 + 60*k})
		}
		st = append(st, start{Off: 25 * capn, T: capn, To: 560 + 20*r.Intn(3)}) // waits ~400 ms, then connects to a hanging address
		d.Phases = append(d.Phases, phaseD{Oracle: strings.Repeat("h", n), Starts: st})
		d.Phases = append(d.Phases, phaseD{Oracle: strings.Repeat("a", n), Starts: []start{{0, 10, 100}}})
		return d
	case x < 93: // near the uint32 wrap of addrsIdx
		n := 3 + r.Intn(3)
		d := desc{Kind: "dial", Cap: 0, N: n}
		d.Phases = append(d.Phases, phaseD{Oracle: strings.Repeat("a", n), Starts: []start{{0, 0, 100}}})
		v := uint32(1<<32 - 1 - uint64(r.Intn(3)))
		o := []byte(strings.Repeat("r", n))
		o[r.Intn(n)] = 'a'
		d.Phases = append(d.Phases, phaseD{Oracle: string(o), SetIdx: &v, Starts: []start{{0, 1, 100}}})
		return d
	default:
		capn := 1 + r.Intn(4)
		return desc{Kind: "stress", Cap: capn, N: 1 + r.Intn(2), M: capn + 1 + r.Intn(5), To: 100 + 10*r.Intn(5), Acc: r.Intn(4) == 0}
	}
}

func corpus() []desc {
	u := func(v uint32) *uint32 { return &v }
	one := func(t, to int) []start { return []start{{0, t, to}} }
	return []desc{
		{Kind: "consts"},
		// rotation over three addresses: successive dials move on by one
		{Kind: "dial", Cap: 0, N: 3, Phases: []phaseD{{Oracle: "aaa", Starts: one(0, 100)}, {Oracle: "aaa", Starts: one(1, 100)}, {Oracle: "aaa", Starts: one(2, 100)}, {Oracle: "aaa", Starts: one(3, 100)}}},
		// every address refuses: all are tried, the error carries the last one
		{Kind: "dial", Cap: 1, N: 3, Phases: []phaseD{{Oracle: "rrr", Starts: one(0, 100)}, {Oracle: "rrr", Starts: one(1, 100)}, {Oracle: "rra", Starts: one(2, 100)}, {Oracle: "arr", Starts: one(3, 100)}, {Oracle: "rar", Starts: one(4, 100)}}},
		// a hanging address ends the dial with ErrDialTimeout(upstream) at the deadline (never the socket's i/o timeout: fix 0bab23a); the next address is not tried
		{Kind: "dial", Cap: 1, N: 2, Phases: []phaseD{{Oracle: "ha", Starts: one(0, 80)}, {Oracle: "ha", Starts: one(1, 80)}, {Oracle: "rh", Starts: one(2, 80)}, {Oracle: "rh", Starts: one(3, 80)}}},
		// zero / tiny timeout: ErrDialTimeout before any connect
		{Kind: "dial", Cap: 1, N: 2, Phases: []phaseD{{Oracle: "aa", Starts: one(0, 0)}, {Oracle: "aa", Starts: one(1, 100)}}},
		// Concurrency 1: the second dial waits for the semaphore and times out first / gets it after the first timed out
		{Kind: "dial", Cap: 1, N: 1, Phases: []phaseD{{Oracle: "h", Starts: []start{{0, 0, 180}, {25, 1, 60}}}, {Oracle: "a", Starts: one(2, 100)}}},
		{Kind: "dial", Cap: 1, N: 1, Phases: []phaseD{{Oracle: "h", Starts: []start{{0, 0, 70}, {25, 1, 180}}}, {Oracle: "a", Starts: one(2, 100)}}},
		{Kind: "dial", Cap: 2, N: 2, Phases: []phaseD{{Oracle: "hh", Starts: []start{{0, 0, 170}, {25, 1, 240}, {50, 2, 50}}}, {Oracle: "aa", Starts: one(3, 100)}}},
		// a dial that waited long for the semaphore must still return by ITS deadline: the connect that follows the wait gets the
		// remaining time, not a fresh full timeout (B would come back after ~1125 ms instead of ~600 ms)
		{Kind: "dial", Cap: 1, N: 1, Phases: []phaseD{{Oracle: "h", Starts: []start{{0, 0, 550}, {25, 1, 600}}}, {Oracle: "a", Starts: one(2, 100)}}},
		{Kind: "dial", Cap: 2, N: 2, Phases: []phaseD{{Oracle: "hh", Starts: []start{{0, 0, 450}, {25, 1, 520}, {50, 2, 600}}}, {Oracle: "aa", Starts: one(3, 100)}}},
		// DisableDNSResolution: the address is dialled as given (semaphore and timeout still apply)
		{Kind: "dial", Cap: 1, N: 1, NoDNS: true, Phases: []phaseD{{Oracle: "a", Starts: one(0, 100)}, {Oracle: "r", Starts: one(1, 100)}, {Oracle: "h", Starts: []start{{0, 2, 150}, {25, 3, 60}}}, {Oracle: "a", Starts: one(4, 100)}}},
		// the package-level functions (default dialer, Concurrency 1000) and the default-timeout entry points
		{Kind: "dial", N: 1, Pkg: true, Phases: []phaseD{{Oracle: "a", Starts: one(0, 100)}, {Oracle: "r", Starts: one(1, 100)}, {Oracle: "h", Starts: one(2, 80)}}},
		{Kind: "dial", N: 1, Pkg: true, API: "dial", Phases: []phaseD{{Oracle: "a", Starts: one(0, 100)}, {Oracle: "r", Starts: one(1, 100)}}},
		{Kind: "dial", N: 1, Pkg: true, API: "dual", Phases: []phaseD{{Oracle: "a", Starts: one(0, 100)}, {Oracle: "h", Starts: one(1, 80)}}},
		{Kind: "dial", Cap: 1, N: 2, API: "dial", Phases: []phaseD{{Oracle: "ra", Starts: one(0, 100)}, {Oracle: "rr", Starts: one(1, 100)}, {Oracle: "ar", Starts: one(2, 100)}}},
		// dual stack: the IPv6 address the Resolver returned is part of the rotation (nothing listens there); without dual stack it is skipped
		{Kind: "dial", Cap: 1, N: 2, V6: 1, API: "dual", Phases: []phaseD{{Oracle: "aa", Starts: one(0, 100)}, {Oracle: "rr", Starts: one(1, 100)}, {Oracle: "ra", Starts: one(2, 100)}, {Oracle: "rr", Starts: one(3, 100)}}},
		{Kind: "dial", Cap: 0, N: 2, V6: 1, API: "dualdial", Phases: []phaseD{{Oracle: "ra", Starts: one(0, 100)}, {Oracle: "rr", Starts: one(1, 100)}}},
		{Kind: "dial", Cap: 1, N: 2, V6: 2, Phases: []phaseD{{Oracle: "ra", Starts: one(0, 100)}, {Oracle: "rr", Starts: one(1, 100)}, {Oracle: "ar", Starts: one(2, 100)}}},
		// the Resolver fails / hangs until its context expires; afterwards the dialer works (nothing was cached)
		{Kind: "dial", Cap: 1, N: 2, Phases: []phaseD{{Oracle: "aa", Res: "err", Starts: one(0, 100)}, {Oracle: "aa", Starts: one(1, 100)}, {Oracle: "aa", Res: "err", Starts: one(2, 100)}}},
		{Kind: "dial", Cap: 1, N: 2, Phases: []phaseD{{Oracle: "aa", Res: "hang", Starts: one(0, 80)}, {Oracle: "ra", Starts: one(1, 100)}, {Oracle: "rr", Starts: one(2, 100)}}},
		// the cached entry is dropped (FlushDNSCache) or expires (DNSCacheDuration): the new address list is used, the rotation restarts
		{Kind: "dial", Cap: 0, N: 3, Phases: []phaseD{{Oracle: "aaa", Starts: one(0, 100)}, {Oracle: "aaa", Starts: one(1, 100)}, {Oracle: "aa", Renew: "flush", NewN: 2, Starts: one(2, 100)}, {Oracle: "ra", Starts: one(3, 100)}, {Oracle: "rr", Starts: one(4, 100)}}},
		{Kind: "dial", Cap: 1, N: 2, Phases: []phaseD{{Oracle: "aa", Starts: one(0, 100)}, {Oracle: "aaaa", Renew: "expire", NewN: 4, Starts: one(1, 100)}, {Oracle: "rrra", Starts: one(2, 100)}, {Oracle: "aa", Renew: "expire", NewN: 2, Res: "err", Starts: one(3, 100)}, {Oracle: "aa", Renew: "expire", Starts: one(4, 100)}}},
		// the uint32 rotation counter wraps inside the dial (witnesses of the defect fixed by d625fef): every address must still be tried once
		{Kind: "dial", Cap: 0, N: 3, Phases: []phaseD{{Oracle: "aaa", Starts: one(0, 100)}, {Oracle: "rra", SetIdx: u(1<<32 - 2), Starts: one(1, 100)}}},
		{Kind: "dial", Cap: 0, N: 3, Phases: []phaseD{{Oracle: "aaa", Starts: one(0, 100)}, {Oracle: "rrr", SetIdx: u(1<<32 - 2), Starts: one(1, 100)}}},
		{Kind: "dial", Cap: 0, N: 4, Phases: []phaseD{{Oracle: "aaaa", Starts: one(0, 100)}, {Oracle: "rrra", SetIdx: u(1<<32 - 2), Starts: one(1, 100)}}},
		{Kind: "stress", Cap: 2, N: 1, M: 6, To: 120},
		{Kind: "stress", Cap: 0, N: 1, M: 4, To: 120},
		{Kind: "stress", Cap: 3, N: 2, M: 8, To: 120, Acc: true},
	}
}

func main() {
	hlib.Main(hlib.Prop[desc]{
		ID:       "C41",
		Imports:  "From FH Require Import Model.Base Model.Dialer Spec.DialerSpec Check.C41Check.",
		CaseType: "c41case",
		CorrOK:   "corr_ok",
		PropOK:   "prop_ok",
		Rule: "fake Resolver over loopback addresses 127.0.0.10+k that accept, refuse (closed port) or hang (backlog-0 listener with a full queue); directed corpus " +
			"(rotation, all-refuse, hang -> ErrDialTimeout(upstream), zero timeout, semaphore contention with Concurrency 1/2, uint32 wrap of the rotation counter) then seeded fault sequences " +
			"(the behaviour of every address changes between dials), contention scenarios with staggered starts and deadlines >= 40 ms apart, and concurrent runs whose in-progress connects are " +
			"counted from /proc/net/tcp; a case is non-trivial when it reaches a distinct (Concurrency, address count, result classes) combination",
		Corpus:   corpus,
		Gen:      gen,
		Run:      run,
		ShardLen: 25,
	})
}
