// Package hlib is the shared part of every correspondence harness.
//
// A harness describes one property: how to generate a case description D
// (JSON-serialisable, enough to replay it), and how to run the real fasthttp
// code on it, producing a Coq term of the property's `case` type that carries
// both the input and the implementation's observable.  hlib writes the cases
// into shards cases_NNN.v; each shard asks the Coq kernel VM to evaluate
//   MISMATCH := indices of cases where the model's observable differs from the implementation's
//   PROPFAIL := indices of cases where the property oracle (the Spec) rejects the implementation's observable
// The Python driver compiles the shards with coqc and reads the two lists.
package hlib

import (
	"bufio"
	"encoding/hex"
	"encoding/json"
	"flag"
	"fmt"
	"math/rand"
	"os"
	"path/filepath"
	"runtime"
	"sort"
	"strconv"
	"strings"
	"time"
)

// Case is what Run returns.
type Case struct {
	Coq  string // Coq term of type CaseType
	Key  string // classification of the *input* used to match known findings ("" = none)
	Sig  string // signature for counting distinct non-trivial cases ("" = trivial)
	Kind string // histogram bucket (generator class / error kind)
	Size int    // input size for the size histogram
}

// Prop describes one property's harness.
type Prop[D any] struct {
	ID       string
	Imports  string // e.g. "From FH Require Import Model.Base Model.Ints Spec.IntsSpec."
	CaseType string // Coq type of one case
	CorrOK   string // Coq: case -> bool, model observable = implementation observable
	PropOK   string // Coq: case -> bool, property oracle on the implementation observable
	Rule     string // how cases are generated and what makes one non-trivial (goes to the evidence)
	Corpus   func() []D
	Gen      func(r *rand.Rand, i int) D
	Run      func(d D) Case
	ShardLen int // cases per shard (default 400)
	// CaseTimeout bounds one Run call (default 180 s).  When the real code hangs on a case, hlib records the case in
	// current.json, dumps the goroutines and exits with status 3; the driver reports that case as the failing input.
	CaseTimeout time.Duration
}

// B is a byte string that serialises to JSON readably: every byte b becomes the
// code point U+00bb (Latin-1), so printable ASCII stays as it is and the mapping is reversible.
type B []byte

func (b B) MarshalJSON() ([]byte, error) {
	rs := make([]rune, len(b))
	for i, c := range b {
		rs[i] = rune(c)
	}
	return json.Marshal(string(rs))
}

func (b *B) UnmarshalJSON(data []byte) error {
	var s string
	if err := json.Unmarshal(data, &s); err != nil {
		return err
	}
	out := make([]byte, 0, len(s))
	for _, r := range s {
		if r > 255 {
			return fmt.Errorf("hlib.B: code point %U out of byte range", r)
		}
		out = append(out, byte(r))
	}
	*b = out
	return nil
}

// ---- Coq literal helpers -------------------------------------------------

func Hex(b []byte) string { return `(h "` + hex.EncodeToString(b) + `")` }
func HexS(s string) string { return Hex([]byte(s)) }
func Z(n int64) string {
	if n < 0 {
		return "(" + strconv.FormatInt(n, 10) + ")%Z"
	}
	return strconv.FormatInt(n, 10) + "%Z"
}
func N(n uint64) string { return strconv.FormatUint(n, 10) + "%N" }
func Nat(n int) string  { return "(Z.to_nat " + strconv.Itoa(n) + "%Z)" }
func Bool(b bool) string {
	if b {
		return "true"
	}
	return "false"
}
func List(items []string) string { return "[" + strings.Join(items, "; ") + "]" }
func HexList(bs [][]byte) string {
	it := make([]string, len(bs))
	for i, b := range bs {
		it[i] = Hex(b)
	}
	return List(it)
}
func Some(s string) string { return "(Some " + s + ")" }
func None() string         { return "None" }
func Tuple(items ...string) string { return "(" + strings.Join(items, ", ") + ")" }
func App(f string, args ...string) string {
	if len(args) == 0 {
		return f
	}
	return "(" + f + " " + strings.Join(args, " ") + ")"
}

// ---- generators shared by many properties ---------------------------------

func Pick[T any](r *rand.Rand, xs []T) T { return xs[r.Intn(len(xs))] }

// Bytes draws a string of length < maxLen over the given alphabet.
func Bytes(r *rand.Rand, alphabet []byte, maxLen int) []byte {
	n := r.Intn(maxLen + 1)
	b := make([]byte, n)
	for i := range b {
		b[i] = alphabet[r.Intn(len(alphabet))]
	}
	return b
}

// Mutate applies k random byte edits (replace/insert/delete).
func Mutate(r *rand.Rand, b []byte, k int, alphabet []byte) []byte {
	out := append([]byte(nil), b...)
	for ; k > 0; k-- {
		switch r.Intn(3) {
		case 0:
			if len(out) > 0 {
				out[r.Intn(len(out))] = alphabet[r.Intn(len(alphabet))]
			}
		case 1:
			p := r.Intn(len(out) + 1)
			out = append(out[:p], append([]byte{alphabet[r.Intn(len(alphabet))]}, out[p:]...)...)
		case 2:
			if len(out) > 0 {
				p := r.Intn(len(out))
				out = append(out[:p], out[p+1:]...)
			}
		}
	}
	return out
}

// Protect runs f and reports a panic as a string (implementation panics are observables).
func Protect(f func()) (panicked string) {
	defer func() {
		if e := recover(); e != nil {
			panicked = fmt.Sprint(e)
		}
	}()
	f()
	return ""
}

// ---- driver -----------------------------------------------------------------

type caseRec struct {
	I    int             `json:"i"`
	Desc json.RawMessage `json:"desc"`
	Key  string          `json:"key,omitempty"`
	Sig  string          `json:"sig,omitempty"`
	Kind string          `json:"kind,omitempty"`
	Src  string          `json:"src"` // corpus | gen | replay
}

func Main[D any](p Prop[D]) {
	seed := flag.Int64("seed", 1, "PRNG seed")
	n := flag.Int("n", 1000, "number of generated cases (after the corpus)")
	out := flag.String("out", "", "output directory")
	replay := flag.String("replay", "", "replay file (JSON with a desc field, or a cases.jsonl line)")
	corpusFile := flag.String("corpus", "", "extra corpus file (jsonl of descs)")
	flag.Parse()
	if *out == "" {
		fmt.Fprintln(os.Stderr, "need -out")
		os.Exit(2)
	}
	if err := os.MkdirAll(*out, 0o755); err != nil {
		panic(err)
	}
	shardLen := p.ShardLen
	if shardLen == 0 {
		shardLen = 400
	}
	r := rand.New(rand.NewSource(*seed))

	type item struct {
		d   D
		src string
	}
	var items []item
	if *replay != "" {
		raw, err := os.ReadFile(*replay)
		if err != nil {
			panic(err)
		}
		var w struct {
			Desc json.RawMessage `json:"desc"`
		}
		if err := json.Unmarshal(raw, &w); err != nil || w.Desc == nil {
			fmt.Fprintln(os.Stderr, "replay file has no desc field")
			os.Exit(2)
		}
		var d D
		if err := json.Unmarshal(w.Desc, &d); err != nil {
			panic(err)
		}
		items = append(items, item{d, "replay"})
	} else {
		if p.Corpus != nil {
			for _, d := range p.Corpus() {
				items = append(items, item{d, "corpus"})
			}
		}
		if *corpusFile != "" {
			if f, err := os.Open(*corpusFile); err == nil {
				sc := bufio.NewScanner(f)
				sc.Buffer(make([]byte, 1<<20), 1<<26)
				for sc.Scan() {
					line := strings.TrimSpace(sc.Text())
					if line == "" || strings.HasPrefix(line, "#") {
						continue
					}
					var d D
					if err := json.Unmarshal([]byte(line), &d); err == nil {
						items = append(items, item{d, "corpus"})
					}
				}
				f.Close()
			}
		}
		for i := 0; i < *n; i++ {
			items = append(items, item{p.Gen(r, i), "gen"})
		}
	}

	jf, err := os.Create(filepath.Join(*out, "cases.jsonl"))
	if err != nil {
		panic(err)
	}
	jw := bufio.NewWriter(jf)
	sigs := map[string]int{}
	kinds := map[string]int{}
	sizes := map[string]int{}
	var shard []string
	shardNo := 0
	flush := func() {
		if len(shard) == 0 {
			return
		}
		var sb strings.Builder
		sb.WriteString(p.Imports + "\n")
		sb.WriteString("Open Scope string_scope.\n")
		// chunk the list so that no single literal is huge
		const chunk = 50
		nchunks := 0
		for i := 0; i < len(shard); i += chunk {
			j := i + chunk
			if j > len(shard) {
				j = len(shard)
			}
			fmt.Fprintf(&sb, "Definition cs%d : list (%s) := [\n %s\n].\n", nchunks, p.CaseType, strings.Join(shard[i:j], ";\n "))
			nchunks++
		}
		sb.WriteString("Definition cases : list (" + p.CaseType + ") := ")
		for i := 0; i < nchunks; i++ {
			if i > 0 {
				sb.WriteString(" ++ ")
			}
			fmt.Fprintf(&sb, "cs%d", i)
		}
		sb.WriteString(".\n")
		fmt.Fprintf(&sb, "Definition MISMATCH := Eval vm_compute in failing %s cases.\n", p.CorrOK)
		fmt.Fprintf(&sb, "Definition PROPFAIL := Eval vm_compute in failing %s cases.\n", p.PropOK)
		sb.WriteString("Set Printing Width 1000000.\nSet Printing Depth 1000000.\nPrint MISMATCH.\nPrint PROPFAIL.\n")
		name := fmt.Sprintf("cases_%04d.v", shardNo)
		if err := os.WriteFile(filepath.Join(*out, name), []byte(sb.String()), 0o644); err != nil {
			panic(err)
		}
		shardNo++
		shard = shard[:0]
	}
	var samples []json.RawMessage
	caseTimeout := p.CaseTimeout
	if caseTimeout == 0 {
		caseTimeout = 180 * time.Second
	}
	curPath := filepath.Join(*out, "current.json")
	for i, it := range items {
		dj, err := json.Marshal(it.d)
		if err != nil {
			panic(err)
		}
		// Record the case before running it: if the implementation crashes the process (a panic in one of its own
		// goroutines cannot be recovered here) or hangs, the driver knows which input did it.
		cur, _ := json.Marshal(map[string]any{"i": i, "desc": json.RawMessage(dj), "src": it.src})
		os.WriteFile(curPath, cur, 0o644)
		wd := time.AfterFunc(caseTimeout, func() {
			fmt.Fprintf(os.Stderr, "hlib: case %d did not finish within %s: the implementation hangs on this input\n", i, caseTimeout)
			buf := make([]byte, 1<<20)
			n := runtime.Stack(buf, true)
			os.Stderr.Write(buf[:n])
			os.Exit(3)
		})
		c := p.Run(it.d)
		wd.Stop()
		rec := caseRec{I: i, Desc: dj, Key: c.Key, Sig: c.Sig, Kind: c.Kind, Src: it.src}
		b, _ := json.Marshal(rec)
		jw.Write(b)
		jw.WriteByte('\n')
		if c.Sig != "" {
			sigs[c.Sig]++
		}
		kinds[c.Kind]++
		sizes[sizeBucket(c.Size)]++
		if len(samples) < 5 && it.src == "gen" && i%7 == 0 {
			samples = append(samples, dj)
		}
		shard = append(shard, c.Coq)
		if len(shard) >= shardLen {
			flush()
		}
	}
	flush()
	jw.Flush()
	jf.Close()
	os.Remove(curPath)
	if len(samples) == 0 && len(items) > 0 {
		dj, _ := json.Marshal(items[0].d)
		samples = append(samples, dj)
	}
	stats := map[string]any{
		"evaluations":         len(items),
		"distinct_nontrivial": len(sigs),
		"shards":              shardNo,
		"shard_len":           shardLen,
		"kinds":               kinds,
		"sizes":               sizes,
		"rule":                p.Rule,
		"samples":             samples,
		"seed":                *seed,
	}
	sb, _ := json.MarshalIndent(stats, "", " ")
	os.WriteFile(filepath.Join(*out, "stats.json"), sb, 0o644)
}

func sizeBucket(n int) string {
	switch {
	case n == 0:
		return "0"
	case n <= 4:
		return "1-4"
	case n <= 16:
		return "5-16"
	case n <= 64:
		return "17-64"
	case n <= 256:
		return "65-256"
	case n <= 4096:
		return "257-4096"
	default:
		return ">4096"
	}
}

// SortedKeys is a small helper for canonical output of maps.
func SortedKeys[V any](m map[string]V) []string {
	ks := make([]string, 0, len(m))
	for k := range m {
		ks = append(ks, k)
	}
	sort.Strings(ks)
	return ks
}
