// Package pk renders byte strings as the packed literals of coq/Model/PackedBytes.v (used by the C05 and C06 harnesses):
// (ub [len; w1; w2; ...]%uint63), 7 bytes per 63-bit word, most significant first.
package pk

import (
	"strconv"
	"strings"
)

func Hex(b []byte) string {
	var sb strings.Builder
	sb.WriteString("(ub [")
	sb.WriteString(strconv.Itoa(len(b)))
	for i := 0; i < len(b); i += 7 {
		j := i + 7
		if j > len(b) {
			j = len(b)
		}
		var w uint64
		for _, c := range b[i:j] {
			w = w<<8 | uint64(c)
		}
		sb.WriteString(";")
		sb.WriteString(strconv.FormatUint(w, 10))
	}
	sb.WriteString("]%uint63)")
	return sb.String()
}

func HexS(s string) string { return Hex([]byte(s)) }

func HexList(bs [][]byte) string {
	it := make([]string, len(bs))
	for i, b := range bs {
		it[i] = Hex(b)
	}
	return "[" + strings.Join(it, "; ") + "]"
}
