// Package servlib is shared by the serve-loop harnesses (c10, c14, c17): a scripted in-memory
// connection whose Read calls return exactly the chunks the client queued, a runner that puts a
// real fasthttp.Server (Serve or ServeConn) on it, recorders for the ConnState hook and the
// handler, a minimal independent response parser, and printers for the Coq terms of
// Model/Serve.v (scfg, hop lists, chunk lists).
package servlib

import (
	"bytes"
	"crypto/tls"
	"errors"
	"fmt"
	"io"
	"net"
	"strconv"
	"strings"
	"sync"
	"sync/atomic"
	"time"

	"github.com/valyala/fasthttp"
	"verif/harness/hlib"
)

// ---------- the scripted connection ----------

// Conn is the server's end of an in-memory connection.  The client queues chunks with Send; every
// Read returns (a prefix of) the oldest queued chunk and never joins two chunks.
type Conn struct {
	mu   sync.Mutex
	cond *sync.Cond

	in        [][]byte // queued chunks not yet read
	inClosed  bool     // client closed its write side: Read returns io.EOF once the queue is empty
	rdeadline time.Time
	timer     *time.Timer

	Out        []byte   // everything the server wrote
	Writes     []int    // length of Out after each Write call
	ReadLog    [][]byte // what each successful Read returned, in order
	Closed     bool     // server called Close
	CloseCount int
	OutAtClose int // len(Out) when Close was called first

	SentUpper int // bytes the client has queued so far
	Remote    net.Addr
	Timeouts  int         // reads that ended with a deadline error
	OnRead    func(k int) // called after the k-th successful Read obtained its bytes, before it returns
}

func NewConn() *Conn {
	c := &Conn{Remote: &net.TCPAddr{IP: net.IPv4(10, 1, 2, 3), Port: 4321}}
	c.cond = sync.NewCond(&c.mu)
	return c
}

type timeoutErr struct{}

func (timeoutErr) Error() string   { return "i/o timeout" }
func (timeoutErr) Timeout() bool   { return true }
func (timeoutErr) Temporary() bool { return true }

func (c *Conn) Read(p []byte) (int, error) {
	c.mu.Lock()
	defer c.mu.Unlock()
	for {
		if c.Closed {
			return 0, errors.New("use of closed connection")
		}
		if len(c.in) > 0 {
			ch := c.in[0]
			n := copy(p, ch)
			if n == len(ch) {
				c.in = c.in[1:]
			} else {
				c.in[0] = ch[n:]
			}
			c.ReadLog = append(c.ReadLog, append([]byte(nil), p[:n]...))
			c.cond.Broadcast()
			if hook := c.OnRead; hook != nil {
				k := len(c.ReadLog)
				c.mu.Unlock()
				hook(k) // runs between the Read and its return, without the lock
				c.mu.Lock()
			}
			return n, nil
		}
		if c.inClosed {
			return 0, io.EOF
		}
		if !c.rdeadline.IsZero() && !time.Now().Before(c.rdeadline) {
			c.Timeouts++
			return 0, &net.OpError{Op: "read", Net: "mem", Err: timeoutErr{}}
		}
		c.cond.Wait()
	}
}

func (c *Conn) Write(p []byte) (int, error) {
	c.mu.Lock()
	defer c.mu.Unlock()
	if c.Closed {
		return 0, errors.New("use of closed connection")
	}
	c.Out = append(c.Out, p...)
	c.Writes = append(c.Writes, len(c.Out))
	c.cond.Broadcast()
	return len(p), nil
}

func (c *Conn) Close() error {
	c.mu.Lock()
	defer c.mu.Unlock()
	c.CloseCount++
	if !c.Closed {
		c.Closed = true
		c.OutAtClose = len(c.Out)
	}
	c.cond.Broadcast()
	return nil
}

func (c *Conn) LocalAddr() net.Addr  { return &net.TCPAddr{IP: net.IPv4(10, 0, 0, 1), Port: 80} }
func (c *Conn) RemoteAddr() net.Addr { return c.Remote }
func (c *Conn) SetDeadline(t time.Time) error {
	c.SetReadDeadline(t)
	return nil
}
func (c *Conn) SetWriteDeadline(t time.Time) error { return nil }
func (c *Conn) SetReadDeadline(t time.Time) error {
	c.mu.Lock()
	defer c.mu.Unlock()
	c.rdeadline = t
	if c.timer != nil {
		c.timer.Stop()
		c.timer = nil
	}
	if !t.IsZero() {
		d := time.Until(t)
		if d < 0 {
			d = 0
		}
		c.timer = time.AfterFunc(d, func() {
			c.mu.Lock()
			c.cond.Broadcast()
			c.mu.Unlock()
		})
	}
	c.cond.Broadcast()
	return nil
}

// ---- client side ----

// Send queues one chunk (one future Read result, unless it is larger than the reader's buffer).
func (c *Conn) Send(b []byte) {
	if len(b) == 0 {
		return
	}
	c.mu.Lock()
	c.SentUpper += len(b)
	c.in = append(c.in, append([]byte(nil), b...))
	c.cond.Broadcast()
	c.mu.Unlock()
}

// CloseWrite: the client is done sending; the server sees io.EOF after the queued chunks.
func (c *Conn) CloseWrite() {
	c.mu.Lock()
	c.inClosed = true
	c.cond.Broadcast()
	c.mu.Unlock()
}

// Wait blocks until pred holds (evaluated under the lock) or the timeout passes; reports whether it held.
func (c *Conn) Wait(timeout time.Duration, pred func() bool) bool {
	deadline := time.Now().Add(timeout)
	t := time.AfterFunc(timeout, func() {
		c.mu.Lock()
		c.cond.Broadcast()
		c.mu.Unlock()
	})
	defer t.Stop()
	c.mu.Lock()
	defer c.mu.Unlock()
	for !pred() {
		if !time.Now().Before(deadline) {
			return false
		}
		c.cond.Wait()
	}
	return true
}

// Snapshot returns copies of the output and the close flag.
func (c *Conn) Snapshot() (out []byte, closed bool, outAtClose int) {
	c.mu.Lock()
	defer c.mu.Unlock()
	return append([]byte(nil), c.Out...), c.Closed, c.OutAtClose
}

func (c *Conn) Sent() int {
	c.mu.Lock()
	defer c.mu.Unlock()
	return c.SentUpper
}

func (c *Conn) Reads() [][]byte {
	c.mu.Lock()
	defer c.mu.Unlock()
	out := make([][]byte, len(c.ReadLog))
	for i, b := range c.ReadLog {
		out[i] = append([]byte(nil), b...)
	}
	return out
}

// Unread returns the queued chunks the server side never read.
func (c *Conn) Unread() [][]byte {
	c.mu.Lock()
	defer c.mu.Unlock()
	out := make([][]byte, len(c.in))
	for i, b := range c.in {
		out[i] = append([]byte(nil), b...)
	}
	return out
}

// ---------- responses ----------

type Resp struct {
	Status int
	Conn   []string // values of the Connection header lines, in order
	Body   []byte
	End    int // offset in the output just behind this response
}

// ParseResponses splits the server's output into responses (Content-Length framing only; 1xx/204/304 and
// responses to HEAD are not used by these harnesses except "100 Continue", which has no body).
// rest = bytes that do not form a complete response.
func ParseResponses(out []byte) (rs []Resp, rest []byte) {
	pos := 0
	for pos < len(out) {
		i := bytes.Index(out[pos:], []byte("\r\n\r\n"))
		if i < 0 {
			break
		}
		head := string(out[pos : pos+i])
		lines := strings.Split(head, "\r\n")
		r := Resp{}
		f := strings.SplitN(lines[0], " ", 3)
		if len(f) >= 2 {
			r.Status, _ = strconv.Atoi(f[1])
		}
		cl := 0
		for _, l := range lines[1:] {
			k, v, ok := strings.Cut(l, ":")
			if !ok {
				continue
			}
			v = strings.TrimLeft(v, " ")
			switch strings.ToLower(k) {
			case "connection":
				r.Conn = append(r.Conn, v)
			case "content-length":
				cl, _ = strconv.Atoi(v)
			}
		}
		bodyStart := pos + i + 4
		if r.Status < 200 {
			cl = 0
		}
		if bodyStart+cl > len(out) {
			// the announced body is not (yet) there: a response written with SkipBody, or cut off by a close
			cl = len(out) - bodyStart
		}
		r.Body = out[bodyStart : bodyStart+cl]
		pos = bodyStart + cl
		r.End = pos
		rs = append(rs, r)
	}
	return rs, out[pos:]
}

// ---------- configuration / Coq printers ----------

type Cfg struct {
	ReduceMem        bool `json:"rm,omitempty"`
	StreamBody       bool `json:"sb,omitempty"`
	DisableKeepalive bool `json:"dk,omitempty"`
	CloseOnShutdown  bool `json:"cos,omitempty"`
	KeepHijacked     bool `json:"kh,omitempty"`
	MaxReqs          int  `json:"maxr,omitempty"`
	XMode            int  `json:"x,omitempty"`  // 0 none, 1 ExpectHandler, 2 ContinueHandler
	ServeConn        bool `json:"sc,omitempty"` // entry point: ServeConn instead of Serve
	ReadTimeoutMs    int  `json:"rt,omitempty"`
}

func (c Cfg) Coq() string {
	x := []string{"XNone", "XExpectHandler", "XContinueHandler"}[c.XMode]
	return fmt.Sprintf("(mk_scfg %s %s %s %s %s %s %s)", hlib.Bool(c.ReduceMem), hlib.Bool(c.StreamBody), hlib.Bool(c.DisableKeepalive),
		hlib.Bool(c.CloseOnShutdown), hlib.Bool(c.KeepHijacked), hlib.N(uint64(c.MaxReqs)), x)
}

func (c Cfg) Entry() string {
	if c.ServeConn {
		return "ViaServeConn"
	}
	return "ViaServe"
}

// Op is one handler operation (Model/Serve.v hop).
type Op struct {
	K string `json:"k"`           // status | close | hdrconn | hijack | noresp | timeout | skipbody | other | shutdown
	V hlib.B `json:"v,omitempty"` // hdrconn value
	N int    `json:"n,omitempty"` // status code / noresp flag
}

func (o Op) Coq() string {
	switch o.K {
	case "status":
		return "(SetStatus " + hlib.Z(int64(o.N)) + ")"
	case "close":
		return "SetConnClose"
	case "hdrconn":
		return "(SetHdrConn " + hlib.Hex(o.V) + ")"
	case "hijack":
		return "HijackOp"
	case "noresp":
		return "(HijackNoResp " + hlib.Bool(o.N != 0) + ")"
	case "timeout":
		return "TimeoutOp"
	case "skipbody":
		return "SkipBodyOp"
	case "resetclose":
		return "ResetConnClose"
	case "delconn":
		return "DelHdrConn"
	case "error":
		return "(RespReset " + hlib.Z(int64(o.N)) + ")"
	case "reqclose":
		return "ReqSetConnClose"
	case "timeoutclose":
		return "TimeoutRespClose"
	default:
		return "OtherOp"
	}
}

func OpsCoq(ops [][]Op) string {
	outer := make([]string, len(ops))
	for i, l := range ops {
		in := make([]string, len(l))
		for j, o := range l {
			in[j] = o.Coq()
		}
		outer[i] = hlib.List(in)
	}
	return hlib.List(outer)
}

// StateCoq writes a hook call as the integer value of the ConnState; Check/C14Check.v `st` decodes it with the
// constants the translator regenerates from server.go.
func StateCoq(s fasthttp.ConnState) string {
	return "(st " + hlib.Z(int64(s)) + ")"
}

func TailCoq(eof bool) string {
	if eof {
		return "Eof"
	}
	return "Open"
}

// ---------- running a server on a Conn ----------

type HookRec struct {
	State fasthttp.ConnState
	Sent  int // bytes the client had queued when the hook ran
}

type Run struct {
	Srv        *fasthttp.Server
	Conn       *Conn
	mu         sync.Mutex
	Hooks      []HookRec
	Seen       []string      // request targets in dispatch order
	Done       chan struct{} // closed when ServeConn / the worker has finished with the connection
	Err        error
	ln         *oneListener
	HijackDone chan struct{}
}

func (r *Run) HookStates() []fasthttp.ConnState {
	r.mu.Lock()
	defer r.mu.Unlock()
	out := make([]fasthttp.ConnState, len(r.Hooks))
	for i, h := range r.Hooks {
		out[i] = h.State
	}
	return out
}

func (r *Run) HookRecs() []HookRec {
	r.mu.Lock()
	defer r.mu.Unlock()
	return append([]HookRec(nil), r.Hooks...)
}

type oneListener struct {
	ch     chan net.Conn
	closed chan struct{}
	once   sync.Once
}

func (l *oneListener) Accept() (net.Conn, error) {
	select {
	case c := <-l.ch:
		return c, nil
	case <-l.closed:
		return nil, errors.New("listener closed")
	}
}
func (l *oneListener) Close() error   { l.once.Do(func() { close(l.closed) }); return nil }
func (l *oneListener) Addr() net.Addr { return &net.TCPAddr{IP: net.IPv4(10, 0, 0, 1), Port: 80} }

type nullLogger struct{}

func (nullLogger) Printf(string, ...any) {}

// NewServer builds the Server for cfg; handler gets the 1-based request number on this connection.
func NewServer(cfg Cfg, handler func(ctx *fasthttp.RequestCtx, num int)) *fasthttp.Server {
	s := &fasthttp.Server{
		ReduceMemoryUsage:     cfg.ReduceMem,
		StreamRequestBody:     cfg.StreamBody,
		DisableKeepalive:      cfg.DisableKeepalive,
		CloseOnShutdown:       cfg.CloseOnShutdown,
		KeepHijackedConns:     cfg.KeepHijacked,
		MaxRequestsPerConn:    cfg.MaxReqs,
		NoDefaultServerHeader: true,
		NoDefaultDate:         true,
		NoDefaultContentType:  true,
		Logger:                nullLogger{},
	}
	if cfg.ReadTimeoutMs > 0 {
		s.ReadTimeout = time.Duration(cfg.ReadTimeoutMs) * time.Millisecond
	}
	s.Handler = func(ctx *fasthttp.RequestCtx) { handler(ctx, int(ctx.ConnRequestNum())) }
	return s
}

// Start serves conn through Serve (a listener that yields just this connection) or ServeConn.
func Start(s *fasthttp.Server, cfg Cfg, conn *Conn, nc net.Conn) *Run {
	r := &Run{Srv: s, Conn: conn, Done: make(chan struct{})}
	s.ConnState = func(c net.Conn, st fasthttp.ConnState) {
		sent := conn.Sent()
		r.mu.Lock()
		r.Hooks = append(r.Hooks, HookRec{st, sent})
		r.mu.Unlock()
		if st == fasthttp.StateClosed || st == fasthttp.StateHijacked {
			select {
			case <-r.Done:
			default:
				close(r.Done)
			}
		}
	}
	if cfg.ServeConn {
		go func() {
			r.Err = s.ServeConn(nc)
			select {
			case <-r.Done:
			default:
				close(r.Done)
			}
		}()
	} else {
		r.ln = &oneListener{ch: make(chan net.Conn, 1), closed: make(chan struct{})}
		r.ln.ch <- nc
		go s.Serve(r.ln) //nolint:errcheck
	}
	return r
}

// Finish waits for the connection to be done (bounded) and stops the listener.
func (r *Run) Finish(timeout time.Duration) bool {
	ok := true
	closed := make(chan struct{})
	go func() {
		if r.Conn.Wait(timeout, func() bool { return r.Conn.Closed }) {
			close(closed)
		}
	}()
	select {
	case <-r.Done:
	case <-closed:
		// the hook (if any) follows the Close immediately
		select {
		case <-r.Done:
		case <-time.After(30 * time.Millisecond):
		}
	case <-time.After(timeout):
		ok = false
	}
	if r.ln != nil {
		r.ln.Close()
	}
	return ok
}

// ---------- scenarios ----------

type Step struct {
	Chunk hlib.B `json:"c"`
	Wait  bool   `json:"w,omitempty"` // after sending, wait until one more response has arrived (or the server closed)
}

type Scenario struct {
	Cfg     Cfg    `json:"cfg"`
	Steps   []Step `json:"steps"`
	Ops     [][]Op `json:"ops,omitempty"`    // handler operations per request (1st, 2nd, ...)
	XStatus []int  `json:"xst,omitempty"`    // ExpectHandler status / ContinueHandler (100 = continue) per request
	EndEOF  bool   `json:"eof,omitempty"`    // the client closes its side at the end (otherwise it stays silent: read deadline)
	Reject  string `json:"reject,omitempty"` // "", "conc" (Concurrency limit), "perip" (MaxConnsPerIP)
	HjIn    int    `json:"hjin,omitempty"`   // hijack handler: bytes to read before returning (-1: until EOF)
	HjLate  bool   `json:"hjlate,omitempty"` // KeepHijackedConns: keep reading (to EOF) after the handler returned
	GoneAt  int    `json:"gone,omitempty"`   // Serve only: during the read that delivers the first byte of this request (1-based read count), Shutdown runs and closes the connection as idle
	TLS     string `json:"tls,omitempty"`    // the connection offers Handshake/ConnectionState: "h2" (NextProto handler registered), "fail" (handshake error), "none" (no protocol negotiated)
	Early   bool   `json:"early,omitempty"`  // observe whether the server closes on its own after the last step
	StepGap int    `json:"gap,omitempty"`    // ms to sleep before each step
}

type HijackResult struct {
	Ran         bool
	OutBefore   int    // len(server output) when the hijack handler started
	In          []byte // read inside the handler
	Late        []byte // read after the handler returned
	LatePanic   bool
	LateErr     bool // a read error other than io.EOF
	ClosedAfter bool // the connection was closed shortly after the handler returned
}

type Result struct {
	Hooks        []HookRec
	Out          []byte
	Resps        []Resp
	Rest         []byte
	Closed       bool // the server closed the connection
	Reads        [][]byte
	Unread       [][]byte
	Seen         []string
	Hijack       HijackResult
	Finished     bool
	Early        bool  // the server closed the connection before the client closed its side
	RespAtStep   []int // number of complete responses seen after each step
	ClosedAtStep []bool
}

func targetIndex(uri []byte) int {
	// request targets are "/r<N>"
	s := string(uri)
	if i := strings.Index(s, "/r"); i >= 0 {
		n, _ := strconv.Atoi(strings.TrimRight(s[i+2:], " "))
		return n
	}
	return 0
}

// RunScenario plays sc against a real Server.
func RunScenario(sc Scenario) Result {
	var res Result
	conn := NewConn()
	var run *Run
	var srv *fasthttp.Server
	var hmu sync.Mutex
	hjDone := make(chan struct{})
	lateDone := make(chan struct{})
	var hjRan int32
	hj := func(c net.Conn) {
		out, _, _ := conn.Snapshot()
		hmu.Lock()
		res.Hijack.Ran = true
		res.Hijack.OutBefore = len(out)
		hmu.Unlock()
		atomic.StoreInt32(&hjRan, 1)
		c.Write([]byte("\x00HJ\x00")) //nolint:errcheck
		readSome := func(limit int, dst *[]byte) (panicked, rerr bool) {
			defer func() {
				if e := recover(); e != nil {
					panicked = true
				}
			}()
			buf := make([]byte, 512)
			for limit != 0 {
				n := len(buf)
				if limit > 0 && limit < n {
					n = limit
				}
				k, err := c.Read(buf[:n])
				hmu.Lock()
				*dst = append(*dst, buf[:k]...)
				hmu.Unlock()
				if limit > 0 {
					limit -= k
				}
				if err != nil {
					return false, err != io.EOF
				}
			}
			return false, false
		}
		c.SetReadDeadline(time.Now().Add(300 * time.Millisecond)) //nolint:errcheck
		readSome(sc.HjIn, &res.Hijack.In)
		if sc.HjLate {
			go func() {
				defer close(lateDone)
				time.Sleep(60 * time.Millisecond) // let hijackConnHandler finish (releaseCtx)
				p, e := readSome(-1, &res.Hijack.Late)
				hmu.Lock()
				res.Hijack.LatePanic = p
				res.Hijack.LateErr = e
				hmu.Unlock()
				func() {
					defer func() { recover() }() //nolint:errcheck
					c.Close()
				}()
			}()
		} else {
			close(lateDone)
		}
		close(hjDone)
	}
	xst := func(i int) int {
		if i >= 1 && i <= len(sc.XStatus) {
			return sc.XStatus[i-1]
		}
		return 100
	}
	handler := func(ctx *fasthttp.RequestCtx, num int) {
		hmu.Lock()
		res.Seen = append(res.Seen, string(ctx.RequestURI()))
		hmu.Unlock()
		ctx.SetBodyString("r" + strconv.Itoa(num))
		if num >= 1 && num <= len(sc.Ops) {
			for _, o := range sc.Ops[num-1] {
				switch o.K {
				case "status":
					ctx.SetStatusCode(o.N)
				case "close":
					ctx.SetConnectionClose()
				case "hdrconn":
					ctx.Response.Header.Set("Connection", string(o.V))
				case "hijack":
					ctx.Hijack(hj)
				case "noresp":
					ctx.HijackSetNoResponse(o.N != 0)
				case "timeout":
					ctx.TimeoutError("t")
				case "skipbody":
					ctx.Response.SkipBody = true
				case "resetclose":
					ctx.Response.Header.ResetConnectionClose()
				case "delconn":
					ctx.Response.Header.Del("Connection")
				case "error":
					ctx.Error("e"+strconv.Itoa(num), o.N)
				case "reqclose":
					ctx.Request.Header.SetConnectionClose()
				case "timeoutclose":
					var tr fasthttp.Response
					tr.SetStatusCode(fasthttp.StatusRequestTimeout)
					tr.SetBodyString("tc")
					tr.SetConnectionClose()
					ctx.TimeoutErrorWithResponse(&tr)
				case "shutdown":
					go srv.Shutdown() //nolint:errcheck
					for i := 0; i < 2000 && !fasthttp.VerifServerStopping(srv); i++ {
						time.Sleep(time.Millisecond)
					}
				}
			}
		}
	}
	srv = NewServer(sc.Cfg, handler)
	switch sc.Cfg.XMode {
	case 1:
		srv.ExpectHandler = func(ctx *fasthttp.RequestCtx) int { return xst(targetIndex(ctx.RequestURI())) }
	case 2:
		srv.ContinueHandler = func(h *fasthttp.RequestHeader) bool { return xst(targetIndex(h.RequestURI())) == 100 }
	}

	// a TLS-looking connection: NextProto delegation or a failing handshake
	var nc net.Conn = conn
	if sc.TLS != "" {
		nc = &TLSConn{Conn: conn, Proto: sc.TLS}
		srv.NextProto("h2", func(c net.Conn) error {
			buf := make([]byte, 64)
			c.Read(buf)                 //nolint:errcheck
			c.Write([]byte("PROTO-H2")) //nolint:errcheck
			return nil
		})
	}

	// rejection scenarios need another connection that occupies the limit
	var blocker *Conn
	release := make(chan struct{})
	if sc.Reject != "" {
		inner := srv.Handler
		started := make(chan struct{}, 1)
		srv.Handler = func(ctx *fasthttp.RequestCtx) {
			if string(ctx.Path()) == "/block" {
				started <- struct{}{}
				<-release
				return
			}
			inner(ctx)
		}
		if sc.Reject == "conc" {
			srv.Concurrency = 1
		} else {
			srv.MaxConnsPerIP = 1
		}
		blocker = NewConn()
		if sc.Cfg.ServeConn {
			go srv.ServeConn(blocker) //nolint:errcheck
		}
		_ = started
	}

	if sc.Reject != "" && !sc.Cfg.ServeConn {
		// Serve: both connections come from one listener, the blocker first
		ln := &oneListener{ch: make(chan net.Conn, 2), closed: make(chan struct{})}
		run = &Run{Srv: srv, Conn: conn, Done: make(chan struct{}), ln: ln}
		srv.ConnState = func(c net.Conn, st fasthttp.ConnState) {
			if uc, ok := c.(interface{ UnsafeConn() net.Conn }); ok {
				c = uc.UnsafeConn()
			}
			if c != net.Conn(conn) && !sameConn(c, conn) {
				return
			}
			sent := conn.Sent()
			run.mu.Lock()
			run.Hooks = append(run.Hooks, HookRec{st, sent})
			run.mu.Unlock()
			if st == fasthttp.StateClosed || st == fasthttp.StateHijacked {
				select {
				case <-run.Done:
				default:
					close(run.Done)
				}
			}
		}
		ln.ch <- blocker
		go srv.Serve(ln) //nolint:errcheck
		blocker.Send([]byte("GET /block HTTP/1.1\r\nHost: h\r\n\r\n"))
		blocker.Wait(2*time.Second, func() bool { return len(blocker.ReadLog) > 0 })
		time.Sleep(5 * time.Millisecond)
		ln.ch <- conn
	} else {
		if sc.Reject != "" {
			blocker.Send([]byte("GET /block HTTP/1.1\r\nHost: h\r\n\r\n"))
			blocker.Wait(2*time.Second, func() bool { return len(blocker.ReadLog) > 0 })
			time.Sleep(5 * time.Millisecond)
		}
		run = Start(srv, sc.Cfg, conn, nc)
		if sc.Reject != "" {
			// only hooks of the connection under test count
			base := srv.ConnState
			srv.ConnState = func(c net.Conn, st fasthttp.ConnState) {
				if sameConn(c, conn) {
					base(c, st)
				}
			}
		}
	}

	if sc.GoneAt > 0 {
		conn.OnRead = func(k int) {
			if k != sc.GoneAt {
				return
			}
			go srv.Shutdown() //nolint:errcheck
			conn.Wait(2*time.Second, func() bool { return conn.Closed })
		}
	}
	nresp := func() int {
		rs, _ := ParseResponses(conn.Out)
		n := 0
		for _, r := range rs {
			if r.Status >= 200 {
				n++
			}
		}
		return n
	}
	for _, st := range sc.Steps {
		if sc.StepGap > 0 {
			time.Sleep(time.Duration(sc.StepGap) * time.Millisecond)
		}
		before := 0
		conn.Wait(0, func() bool { before = nresp(); return true })
		conn.Send(st.Chunk)
		if st.Wait {
			conn.Wait(2*time.Second, func() bool { return nresp() > before || conn.Closed || atomic.LoadInt32(&hjRan) == 1 })
		}
		var k int
		var cl bool
		conn.Wait(0, func() bool { k = nresp(); cl = conn.Closed; return true })
		res.RespAtStep = append(res.RespAtStep, k)
		res.ClosedAtStep = append(res.ClosedAtStep, cl)
	}
	if sc.Early {
		// give the server time to close on its own: long if the last response announced it
		out, _, _ := conn.Snapshot()
		rs, _ := ParseResponses(out)
		d := 25 * time.Millisecond
		if len(rs) > 0 && HasCloseOption(rs[len(rs)-1].Conn) {
			d = 1500 * time.Millisecond
		}
		res.Early = conn.Wait(d, func() bool { return conn.Closed })
	}
	if sc.EndEOF {
		conn.CloseWrite()
	}
	res.Finished = run.Finish(3 * time.Second)
	hooks := run.HookRecs()
	hijacked := false
	for _, h := range hooks {
		if h.State == fasthttp.StateHijacked {
			hijacked = true
		}
	}
	if hijacked {
		select {
		case <-hjDone:
		case <-time.After(2 * time.Second):
		}
		// is the connection closed once the hijack handler has returned?
		if sc.Cfg.KeepHijacked {
			time.Sleep(15 * time.Millisecond)
			_, cl, _ := conn.Snapshot()
			res.Hijack.ClosedAfter = cl
		} else {
			res.Hijack.ClosedAfter = conn.Wait(2*time.Second, func() bool { return conn.Closed })
		}
		select {
		case <-lateDone:
		case <-time.After(2 * time.Second):
		}
		time.Sleep(3 * time.Millisecond)
	}
	if blocker != nil {
		close(release)
		blocker.CloseWrite()
	}
	if !sc.EndEOF {
		conn.CloseWrite()
	}
	hmu.Lock()
	defer hmu.Unlock()
	res.Hooks = hooks
	res.Out, res.Closed, _ = conn.Snapshot()
	res.Resps, res.Rest = ParseResponses(res.Out)
	res.Reads = conn.Reads()
	res.Unread = conn.Unread()
	return res
}

func sameConn(c net.Conn, conn *Conn) bool {
	for i := 0; i < 4; i++ {
		if c == net.Conn(conn) {
			return true
		}
		if uc, ok := c.(interface{ UnsafeConn() net.Conn }); ok {
			c = uc.UnsafeConn()
			continue
		}
		break
	}
	return false
}

// ---------- request grammar ----------

type Req struct {
	Method  string   `json:"m,omitempty"`    // default GET
	V10     bool     `json:"v10,omitempty"`  // HTTP/1.0
	Conn    []string `json:"conn,omitempty"` // one Connection line per entry
	ConnKey string   `json:"ckey,omitempty"` // spelling of the field name (default "Connection")
	NoSP    bool     `json:"nosp,omitempty"` // "Connection:value" without the space
	Body    hlib.B   `json:"body,omitempty"` // sent with Content-Length
	Expect  bool     `json:"expect,omitempty"`
	Raw     hlib.B   `json:"raw,omitempty"` // if set, these bytes instead
}

// Bytes renders request number idx (1-based): its target is "/r<idx>".
func (r Req) Bytes(idx int) []byte {
	if r.Raw != nil {
		return r.Raw
	}
	m := r.Method
	if m == "" {
		m = "GET"
	}
	v := "1.1"
	if r.V10 {
		v = "1.0"
	}
	var b bytes.Buffer
	fmt.Fprintf(&b, "%s /r%d HTTP/%s\r\nHost: h\r\n", m, idx, v)
	for _, c := range r.Conn {
		k := r.ConnKey
		if k == "" {
			k = "Connection"
		}
		sp := " "
		if r.NoSP {
			sp = ""
		}
		fmt.Fprintf(&b, "%s:%s%s\r\n", k, sp, c)
	}
	if len(r.Body) > 0 || m == "POST" || m == "PUT" {
		fmt.Fprintf(&b, "Content-Length: %d\r\n", len(r.Body))
	}
	if r.Expect {
		b.WriteString("Expect: 100-continue\r\n")
	}
	b.WriteString("\r\n")
	b.Write(r.Body)
	return b.Bytes()
}

// HasCloseOption is the harness's own reading of RFC 9110 7.6.1 (only used to choose how long to wait).
func HasCloseOption(vals []string) bool {
	for _, v := range vals {
		for _, e := range strings.Split(v, ",") {
			if strings.EqualFold(strings.Trim(e, " \t"), "close") {
				return true
			}
		}
	}
	return false
}

// TLSConn makes a Conn look like a TLS connection to Server.getNextProto.
type TLSConn struct {
	*Conn
	Proto string
}

func (t *TLSConn) Handshake() error {
	if t.Proto == "fail" {
		return errors.New("tls: handshake failure")
	}
	return nil
}

func (t *TLSConn) ConnectionState() tls.ConnectionState {
	p := t.Proto
	if p == "none" || p == "fail" {
		p = ""
	}
	return tls.ConnectionState{NegotiatedProtocol: p, HandshakeComplete: true}
}
