#!/usr/bin/env python3
"""Run the repository's baseline suite (guard off) in a given tree and compare with BASELINE.json.
usage: baseline.py [repo_dir]   exit 0 iff every stable-pass test passed."""
import json, os, subprocess, sys
repo = sys.argv[1] if len(sys.argv) > 1 else "/repo"
base = json.load(open("/root/.vp/BASELINE.json"))
want = set(base["stable_pass"])
env = dict(os.environ, GOFLAGS="-mod=mod", GOPROXY="off")
p = subprocess.run(["go", "test", "-json", "-vet=off", "-count=1", "-timeout", "25m", "./..."], cwd=repo, env=env,
                   stdout=subprocess.PIPE, stderr=subprocess.STDOUT)
passed, failed = set(), set()
for line in p.stdout.decode("utf-8", "replace").splitlines():
    try:
        e = json.loads(line)
    except Exception:
        continue
    if e.get("Test") and e.get("Action") in ("pass", "fail"):
        k = "%s::%s" % (e["Package"], e["Test"])
        (passed if e["Action"] == "pass" else failed).add(k)
missing = sorted(want - passed)
print("baseline: %d/%d stable tests passed; %d failed overall" % (len(want & passed), len(want), len(failed)))
for m in missing[:40]:
    print("  NOT PASSED:", m)
sys.exit(1 if missing else 0)
