#!/usr/bin/env python3
"""Run the repository's baseline suite (guard off) in a given tree and compare with BASELINE.json.
usage: baseline.py [repo_dir]   exit 0 iff every stable-pass test passed."""
import json, os, subprocess, sys
repo = sys.argv[1] if len(sys.argv) > 1 else "/repo"
base = json.load(open("/root/.vp/BASELINE.json"))
want = set(base["stable_pass"])
env = dict(os.environ, GOFLAGS="-mod=mod", GOPROXY="off")
p = subprocess.run(["go", "test", "-json", "-vet=off", "-count=1", "-timeout", "25m", "./..."], cwd=repo, env=env,
                   stdout=subprocess.PIPE, stderr=subprocess.STDOUT)
passed, failed = set(), set()
for line in p.stdout.decode("utf-8", "replace").splitlines():
    try:
        e = json.loads(line)
    except Exception:
        continue
    if e.get("Test") and e.get("Action") in ("pass", "fail"):
        k = "%s::%s" % (e["Package"], e["Test"])
        (passed if e["Action"] == "pass" else failed).add(k)
missing = sorted(want - passed)
# timing/concurrency tests fail spuriously on a loaded machine: re-run the not-passed ones alone (twice at most)
for attempt in range(2):
    if not missing or len(missing) > 60:
        break
    bypkg = {}
    for m in missing:
        pkg, t = m.split("::", 1)
        bypkg.setdefault(pkg, set()).add(t.split("/")[0])
    for pkg, tests in bypkg.items():
        rel = "./" + pkg[len("github.com/valyala/fasthttp"):].lstrip("/")
        q = subprocess.run(["go", "test", "-json", "-vet=off", "-count=1", "-p", "1", "-timeout", "10m", "-run", "^(" + "|".join(sorted(tests)) + ")$", rel],
                           cwd=repo, env=env, stdout=subprocess.PIPE, stderr=subprocess.STDOUT)
        for line in q.stdout.decode("utf-8", "replace").splitlines():
            try:
                e = json.loads(line)
            except Exception:
                continue
            if e.get("Test") and e.get("Action") == "pass":
                passed.add("%s::%s" % (e["Package"], e["Test"]))
    missing = sorted(want - passed)
print("baseline: %d/%d stable tests passed; %d failed overall" % (len(want & passed), len(want), len(failed)))
for m in missing[:40]:
    print("  NOT PASSED:", m)
sys.exit(1 if missing else 0)
