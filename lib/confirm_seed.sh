#!/bin/sh
# confirm_seed.sh <worktree> [pkgdir]  : demo fails with the change, passes without; baseline passes with the change.
wt=$1; pkg=${2:-.}
export GOFLAGS=-mod=mod GOPROXY=off
cd "$wt" || exit 2
git diff -- . ':!zz_seed_demo_test.go' ':!OUT' > /tmp/confirm_$$.diff
[ -s /tmp/confirm_$$.diff ] || { echo "no change in worktree"; exit 2; }
echo "== demo WITH change (expect FAIL)"; (cd $pkg && go test -count=1 -run 'SeedDemo|Seed' . 2>&1 | tail -3)
git apply -R /tmp/confirm_$$.diff || exit 2
echo "== demo WITHOUT change (expect ok)"; (cd $pkg && go test -count=1 -run 'SeedDemo|Seed' . 2>&1 | tail -3)
git apply /tmp/confirm_$$.diff || exit 2
mv zz_seed_demo_test.go /tmp/zz_demo_$$.go 2>/dev/null
echo "== baseline WITH change"; for i in 1 2 3; do python3 /verif/lib/baseline.py "$wt" > /tmp/confirm_bl_$$.txt 2>&1 && break; done; head -3 /tmp/confirm_bl_$$.txt
mv /tmp/zz_demo_$$.go zz_seed_demo_test.go 2>/dev/null
rm -f /tmp/confirm_$$.diff
