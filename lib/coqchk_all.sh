#!/bin/sh
# coqchk_all.sh : copy coq/ to a scratch directory, build every Properties/Cnn.vo from clean, and re-check ALL of them
# (with everything they depend on) with the independent checker; writes audit/coqchk_all.txt.  ~10 min build + ~9 min coqchk.
set -e
d=$(mktemp -d /tmp/coqchk_all.XXXX)
rsync -a --exclude '*.vo' --exclude '*.glob' --exclude '*.vos' --exclude '*.vok' --exclude '.*.aux' /verif/coq/ "$d/coq/"
cd "$d/coq"
coq_makefile -f _CoqProject -o Makefile >/dev/null
make -j"${J:-8}" $(ls Properties/C*.v | sed 's/\.v$/.vo/') > "$d/make.log" 2>&1 || { tail -20 "$d/make.log"; exit 1; }
mods=$(ls Properties/C*.v | sed 's/\.v$//; s#/#.#; s/^/FH./')
coqchk -silent -o -Q . FH $mods > "$d/coqchk.log" 2>&1 || { tail -20 "$d/coqchk.log"; exit 1; }
{ date -u +%Y-%m-%dT%H:%MZ; git -C /verif rev-parse --short HEAD; sed -n 1,14p "$d/coqchk.log"; } > /verif/audit/coqchk_all.txt
cat /verif/audit/coqchk_all.txt
cd /; rm -rf "$d"
