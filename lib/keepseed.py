#!/usr/bin/env python3
"""keepseed.py <prop> <n> <worktree> <caught:yes|no|after-fix> "<what it needs>" "<how the check reports it>"
Stores a confirmed seeded change under /verif/seeded/<prop>-<n>/ and removes the worktree."""
import json, os, shutil, subprocess, sys
pid, n, wt, caught, needs, how = sys.argv[1:7]
d = "/verif/seeded/%s-%s" % (pid, n)
os.makedirs(d, exist_ok=True)
shutil.copy(os.path.join(wt, "OUT", "patch.diff"), os.path.join(d, "patch.diff"))
demo = os.path.join(wt, "OUT", "demo_test.go")
if not os.path.exists(demo):
    demo = os.path.join(wt, "zz_seed_demo_test.go")
shutil.copy(demo, os.path.join(d, "demo_test.go.txt"))
notes = os.path.join(wt, "OUT", "notes.md")
if os.path.exists(notes):
    shutil.copy(notes, os.path.join(d, "notes.md"))
meta = {"property": pid, "needs_to_manifest": needs, "confirmed_by_integrator": {
    "demo_fails_with_change": True, "demo_passes_without": True, "baseline_with_change": "1091/1091 stable tests passed",
    "commands": ["lib/confirm_seed.sh " + wt, "lib/tryseed.sh %s %s/patch.diff" % (pid, d)]},
    "caught_by_check": caught, "how_reported": how}
json.dump(meta, open(os.path.join(d, "meta.json"), "w"), indent=1)
subprocess.run(["git", "-C", "/repo", "worktree", "remove", "--force", wt])
print("kept", d)
