#!/usr/bin/env python3
"""Rebuild known_findings.txt (the canonical, committed list) from findings/*.txt: every open `finding:` line and every `fixed:` line, de-duplicated.
The checks read known_findings.txt (and findings/*.txt while a property is being worked on); they never write to either."""
import glob, os, re
V = os.path.dirname(os.path.dirname(os.path.abspath(__file__)))
seen, fin, fixd = set(), [], []
for p in sorted(glob.glob(os.path.join(V, "findings", "*.txt"))):
    for line in open(p):
        line = line.strip()
        if line in seen: continue
        if re.match(r"finding:\s+property=C\d+\s+key=\S+\s+\S", line): seen.add(line); fin.append(line)
        elif re.match(r"fixed:\s+property=C\d+\s+\S", line): seen.add(line); fixd.append(line)
key = lambda l: re.search(r"property=(C\d+)", l).group(1)
with open(os.path.join(V, "known_findings.txt"), "w") as f:
    f.write("# Known findings of the fasthttp verification (see DESIGN.md section 8 and findings/fixer*-report.md).\n")
    f.write("# `finding:` = genuine defect of the unchanged tree that is recorded, not repaired: the check prints KNOWN-FINDING for it and exits 0;\n")
    f.write("#              a violation whose key is not listed here is still reported.\n")
    f.write("# `fixed:`   = genuine defect repaired by a minimal `fix:` commit in /repo; suppresses nothing (the witness stays in the corpus).\n\n")
    for l in sorted(fin, key=key): f.write(l + "\n")
    f.write("\n")
    for l in sorted(fixd, key=key): f.write(l + "\n")
print(len(fin), "open findings,", len(fixd), "fixed")
