#!/usr/bin/env python3
"""Regenerate MANIFEST.json from props/*.json (one file per claimed property) and props/not_applicable.json."""
import json, os, glob, subprocess
V = os.path.dirname(os.path.dirname(os.path.abspath(__file__)))
checks = []
READY = set(open(os.path.join(V, 'props', 'READY')).read().split())
for p in sorted(glob.glob(os.path.join(V, "props", "C[0-9]*.json"))):
    if p.endswith(".hashes.json"):
        continue
    c = json.load(open(p))
    pid = c["id"]
    if c.get("disabled") or pid not in READY:
        continue   # props/READY is maintained by the integrator: one property id per line, added once the check is reviewed and green
    checks.append({
        "property_id": pid,
        "quick_cmd": "./check %s --tier quick" % pid,
        "thorough_cmd": "./check %s --tier thorough" % pid,
        "evidence_file": "/verif/evidence/%s.json" % pid,
        "replay_cmd_template": "./check %s --replay {path}" % pid,
        "engine": "coq-proof+correspondence",
        "level_claimed": {
            "category": "proof",
            "text": c.get("level_text") or c.get("explanation", ""),
            "design_ref": "DESIGN.md section 5, " + pid,
        },
        "level_note": c.get("level_note") or ("Trusted: Coq 8.16.1 kernel and vm_compute; hand-written Gallina model tied to the code by the translator (data) and by the correspondence harness (behaviour, sampled); " + "; ".join(c.get("assumptions", []))),
        "technique": c.get("technique", "machine-checked proof in Coq about an executable model + model/implementation correspondence check evaluated in the Coq VM"),
    })
claimed = {c["property_id"] for c in checks}
na = []
nap = os.path.join(V, "props", "not_applicable.json")
reasons = json.load(open(nap)) if os.path.exists(nap) else {}
for l in open(os.path.join(V, "properties.jsonl")):
    pid = json.loads(l)["id"]
    if pid not in claimed:
        na.append({"property_id": pid, "reason": reasons.get(pid, "not claimed yet: model, theorems and correspondence harness for this property are not built in this revision")})
hooks_commits = []
try:
    out = subprocess.run(["git", "-C", "/repo", "log", "--format=%h %s"], stdout=subprocess.PIPE).stdout.decode()
    hooks_commits = [l.split()[0] for l in out.splitlines() if l.split(" ", 1)[1].startswith("verif:")]
except Exception:
    pass
m = {
    "version": 1,
    "setup_cmd": "./setup.sh",
    "hooks": {
        "guard": "verif",
        "enable": "go build -tags verif (files /repo/verif_*.go and /repo/*/verif_*.go carry //go:build verif; nothing else in the repository is touched by hooks)",
        "baseline_off_cmd": "cd /repo && GOFLAGS=-mod=mod go test -json -vet=off -count=1 -timeout 25m ./...",
        "source_commits": hooks_commits,
        "add_only": True,
    },
    "engines": [{
        "name": "coq-proof+correspondence",
        "path": "/verif/check",
        "serves_properties": sorted(claimed),
        "kind_free_text": "Coq 8.16.1 theorems about executable Gallina models (coq/), data regenerated from the Go source by translator/, Go harnesses (harness/) run the real code and emit case files that coqc evaluates with vm_compute against the model (correspondence) and the spec (property oracle)",
    }],
    "checks": checks,
    "not_applicable": na,
    "notes": "See DESIGN.md. Known findings: known_findings.txt. Seeded changes used to test the checks: seeded/.",
}
json.dump(m, open(os.path.join(V, "MANIFEST.json"), "w"), indent=1)
print("claimed", len(checks), "not claimed", len(na))
