#!/usr/bin/env python3
"""Regenerate the seeded-changes table of DESIGN.md section 11.5 from seeded/*/meta.json.
The table sits between the markers <!-- SEEDTABLE:BEGIN --> and <!-- SEEDTABLE:END -->."""
import glob, json, os, re

ROOT = os.path.dirname(os.path.dirname(os.path.abspath(__file__)))


def key(d):
    m = re.match(r"C(\d+)-(\d+)", d)
    return (int(m.group(1)), int(m.group(2)))


def cell(s):
    return " ".join(str(s).split()).replace("|", "\\|")


def main():
    rows, yes, after = [], 0, 0
    for p in sorted((os.path.basename(os.path.dirname(f)) for f in glob.glob(ROOT + "/seeded/*/meta.json")), key=key):
        m = json.load(open(f"{ROOT}/seeded/{p}/meta.json"))
        c = m.get("caught_by_check", "?")
        if c == "yes":
            yes += 1
        else:
            after += 1
        how = m.get("rerun_after_strengthening") or m.get("how_reported", "")
        rows.append(f"| {p} | {cell(m.get('needs_to_manifest', ''))} | {cell(c)} | {cell(how)} |")
    head = (f"{len(rows)} confirmed changes in this table: {yes} caught by the check as it stood when the change arrived, "
            f"{after} missed or only half-caught at first and reported with a concrete failing input after strengthening.\n\n"
            "| seeded change | what it needs to manifest | caught | how the check reports it |\n|---|---|---|---|\n")
    body = head + "\n".join(rows) + "\n"
    path = ROOT + "/DESIGN.md"
    txt = open(path).read()
    b, e = "<!-- SEEDTABLE:BEGIN -->\n", "<!-- SEEDTABLE:END -->\n"
    if b not in txt:
        raise SystemExit("markers missing in DESIGN.md")
    i, j = txt.index(b) + len(b), txt.index(e)
    open(path, "w").write(txt[:i] + body + txt[j:])
    print(len(rows), "seeds;", yes, "yes;", after, "after-fix")


if __name__ == "__main__":
    main()
