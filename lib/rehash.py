#!/usr/bin/env python3
"""rehash.py [ID...] : record the structural hashes of the modelled functions of /repo's current tree as the baseline
(props/<ID>.hashes.json) against which `./check` decides whether a modelled function changed (change-directed budget).
Run it only after the checks have been run green on that tree."""
import json, os, sys
sys.path.insert(0, os.path.dirname(os.path.abspath(__file__)))
import vlib

ids = sys.argv[1:] or open(os.path.join(vlib.VERIF, "props", "READY")).read().split()
for pid in ids:
    cfg = json.load(open(os.path.join(vlib.VERIF, "props", pid + ".json")))
    res = {}
    with vlib.Lock("coq"):
        ok = vlib.run_translator(cfg.get("gen", []), res)
    if not ok:
        print(pid, "translator failed:", res.get("translator_error", "")[-300:])
        continue
    p = os.path.join(vlib.VERIF, "props", pid + ".hashes.json")
    old = json.load(open(p)) if os.path.exists(p) else {}
    new = res.get("func_hashes", {})
    ch = sorted(k for k in new if old.get(k) != new[k])
    json.dump(new, open(p, "w"), indent=1, sort_keys=True)
    print(pid, len(new), "functions;", len(ch), "changed:", ", ".join(ch[:8]))
