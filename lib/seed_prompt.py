#!/usr/bin/env python3
"""Print the prompt for a mutation (seeded-change) agent for property <ID>, instance <k>."""
import json, sys
pid, k = sys.argv[1], sys.argv[2]
p = None
for l in open('/verif/properties.jsonl'):
    d = json.loads(l)
    if d['id'] == pid:
        p = d
wt = "/tmp/seed_%s_%s" % (pid, k)
print(f"""You are helping to evaluate a verification tool. You get one semantic property of the Go library valyala/fasthttp and your own scratch git worktree of its repository. Produce ONE realistic change to fasthttp's non-test source code that BREAKS the property while the code still compiles and the repository's existing test suite still passes, plus a demonstration that fails with your change and passes without it.

Setup (run first):  git -C /repo worktree add --detach {wt} HEAD   — work ONLY inside {wt}; never touch /repo itself, and do not look at /verif (your change must be independent of the tool). No network. For every shell call: export GOFLAGS=-mod=mod GOPROXY=off   (do not set GOSUMDB / GOTOOLCHAIN).

The property ({pid}: {p['title']}):
  {p['statement']}
  Quantifier: {p['quantifier']['text']}
  Anchors in the code: {json.dumps(p['anchors'].get('mechanism', []))[:1500]}

Requirements for the change:
 * It must be the kind of mistake a maintainer could plausibly make or a refactor could introduce (a removed or weakened guard, an off-by-one, a swapped order, a wrong constant, a forgotten reset, an early return, two cooperating sites that each look fine alone) — not vandalism, not a change that ordinary use would expose at once. Prefer one that needs something specific to manifest: an unusual input, a boundary value, a multi-step sequence, a particular interleaving or fault.
 * Only non-test .go files of fasthttp may change; do not touch files named verif_*.go (leave them as they are); keep the patch small (a few lines).
 * It must compile (go build ./... and go vet are not required to be clean beyond compiling) and the EXISTING tests must still pass: run  python3 /verif/lib/baseline.py {wt}  — it must print "baseline: 1091/1091 stable tests passed" (7 unrelated network tests always fail; ignore them). If a test fails, pick a different change.
 * Demonstration: a new Go test file {wt}/zz_seed_demo_test.go (package fasthttp or the relevant sub-package; any test name) that FAILS with your change and PASSES on the unchanged code (verify both. NEVER use `git stash` — the stash is shared between all worktrees of /repo and other people use it; instead save the change with `git -C {wt} diff -- . ':!zz_seed_demo_test.go' > /tmp/p_{pid}_{k}.diff`, revert with `git -C {wt} apply -R /tmp/p_{pid}_{k}.diff`, re-apply with `git -C {wt} apply /tmp/p_{pid}_{k}.diff`). The demonstration should show the property being violated (wrong value returned, bytes leaked, limit exceeded, ...), through the public API where possible.
Deliver, in the directory {wt}/OUT/ : patch.diff (output of `git -C {wt} diff -- . ':!zz_seed_demo_test.go' ':!OUT'` with your change applied, demo excluded), demo_test.go (copy of the demonstration), and notes.md (what the change is, why it breaks the property, what it needs in order to manifest, the exact commands you ran and their results with and without the change). Leave the worktree in place with the change applied. Your final message: the one-paragraph summary from notes.md.""")
