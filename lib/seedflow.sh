#!/bin/sh
# seedflow.sh <ID> [pkgdir]
# One seeded change delivered by an independent agent: worktree /tmp/sa_<ID> (change applied), deliverables in
# /tmp/sa_<ID>_out/{patch.diff,demo_test.go,note.txt}.  Checks that the delivered patch IS the worktree diff, stages the
# demo (test names TestSeedDemo*), confirms it (fails with / passes without the change, pinned baseline passes with it) and
# runs the property's quick check against the changed tree in alt-tree mode.  Logs: /tmp/confirm_<ID>.log, /tmp/try_<ID>.log.
# Afterwards: lib/keepseed.py <ID> <n> /tmp/sa_<ID> <yes|no|after-fix> "<needs>" "<how reported>"; lib/mkseedtable.py; lib/mkstatus.py
id=$1; pkg=${2:-.}
wt=/tmp/sa_$id; out=/tmp/sa_${id}_out
[ -d "$wt" ] && [ -s "$out/patch.diff" ] || { echo "missing $wt or $out/patch.diff"; exit 2; }
git -C "$wt" diff -- . ':!zz_seed_demo_test.go' ':!OUT' | diff -q - "$out/patch.diff" >/dev/null || echo "WARNING: patch.diff differs from the worktree diff"
mkdir -p "$wt/OUT"
cp "$out/patch.diff" "$out/demo_test.go" "$wt/OUT/"
[ -f "$out/note.txt" ] && cp "$out/note.txt" "$wt/OUT/notes.md"
sed 's/^func Test\(SeedDemo\)\{0,1\}\([A-Za-z0-9_]*\)(t \*testing.T)/func TestSeedDemo\2(t *testing.T)/' "$out/demo_test.go" > "$wt/$pkg/zz_seed_demo_test.go"
sh /verif/lib/confirm_seed.sh "$wt" "$pkg" > /tmp/confirm_$id.log 2>&1 &
(cd /verif && sh lib/tryseed.sh "$id" "$out/patch.diff" > /tmp/try_$id.log 2>&1; echo "rc=$?" >> /tmp/try_$id.log)
wait
echo "== $id confirm"; grep -v WARNING /tmp/confirm_$id.log | cut -c1-160
echo "== $id check"; grep -E "^$id:|rc=" /tmp/try_$id.log | cut -c1-300; grep -m3 VIOLATION /tmp/try_$id.log
