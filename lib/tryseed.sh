#!/bin/sh
# tryseed.sh <property-id> <tree-with-the-change> [extra check args]
# Runs ./check <id> against a modified copy of the repository WITHOUT touching /repo or the shared build.
id=$1; tree=$2; shift 2
name=$(basename "$tree")
cd /verif && VERIF_REPO="$tree" VERIF_ALT="$name" ./check "$id" "$@"
