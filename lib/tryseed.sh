#!/bin/sh
# tryseed.sh <property-id> <patch.diff> [extra check args]
# Applies the patch to a scratch worktree of /repo's current HEAD (plus the current verif_* hook files),
# runs ./check <id> against it WITHOUT touching /repo or the shared build (alt-tree mode), removes the worktree.
id=$1; patch=$(readlink -f "$2"); shift 2
name=seedrun_$$
wt=/tmp/$name
git -C /repo worktree add --detach "$wt" HEAD -q || exit 2
# current hook files (may be newer than HEAD / untracked)
(cd /repo && find . -name 'verif_*.go' -not -path './.git/*') | while read f; do mkdir -p "$wt/$(dirname $f)"; cp "/repo/$f" "$wt/$f"; done
if ! git -C "$wt" apply "$patch" 2>/tmp/$name.err; then
  if ! git -C "$wt" apply --3way "$patch" 2>>/tmp/$name.err; then echo "patch does not apply:"; cat /tmp/$name.err; git -C /repo worktree remove --force "$wt"; exit 2; fi
fi
cd /verif && VERIF_REPO="$wt" VERIF_ALT="$name" ./check "$id" "$@"
rc=$?
mkdir -p /verif/build/seedruns && rm -rf "/verif/build/seedruns/$id-$(basename $(dirname $patch))" && mv "/verif/build/alt/$name/replay" "/verif/build/seedruns/$id-$(basename $(dirname $patch))" 2>/dev/null
rm -rf "/verif/build/alt/$name"
git -C /repo worktree remove --force "$wt"
exit $rc
