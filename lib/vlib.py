#!/usr/bin/env python3
"""Generic check pipeline for the fasthttp Coq verification (see DESIGN.md sections 1 and 3).

    ./check <ID> [--tier quick|thorough] [--replay FILE] [--n N]

Steps: translator (K0) -> Coq build of the model cone and of Properties/<ID>.v (T)
-> go build of the harness against /repo's working tree with -tags verif -> run the
harness (real code) -> evaluate model and property oracle on the same cases inside
the Coq kernel VM (K1/K2) -> verdict, evidence, replay.
"""
import concurrent.futures as cf
import fcntl
import json
import os
import re
import shutil
import subprocess
import sys
import time

VERIF = os.path.dirname(os.path.dirname(os.path.abspath(__file__)))
REPO = os.environ.get("VERIF_REPO", "/repo")
COQ = os.path.join(VERIF, "coq")
BUILD = os.path.join(VERIF, "build")
HARNESS = os.path.join(VERIF, "harness")
OUTROOT = VERIF          # evidence/ and replay/ live here
# Alternate-tree mode (used to try a seeded change without touching /repo or the shared build):
#   VERIF_REPO=/tmp/seed_x VERIF_ALT=x ./check Cnn
# copies coq/ and harness/ under build/alt/x, points the harness's `replace` at $VERIF_REPO and writes
# evidence/replay there.  The registered MANIFEST commands never use it.
ALT = os.environ.get("VERIF_ALT")


def setup_alt():
    global COQ, BUILD, HARNESS, OUTROOT
    root = os.path.join(VERIF, "build", "alt", ALT)
    os.makedirs(root, exist_ok=True)
    for src, dst, extra in ((os.path.join(VERIF, "coq"), os.path.join(root, "coq"), ["--exclude", "Gen/*.vo"]),
                            (os.path.join(VERIF, "harness"), os.path.join(root, "harness"), [])):
        rc = subprocess.run(["rsync", "-a", "--delete"] + extra + [src + "/", dst + "/"]).returncode
        if rc not in (0, 24):   # 24: a source file vanished while copying (another writer): harmless here
            raise RuntimeError("rsync failed with %d" % rc)
    gm = os.path.join(root, "harness", "go.mod")
    t = open(gm).read().replace("=> /repo", "=> " + REPO)
    open(gm, "w").write(t)
    COQ = os.path.join(root, "coq")
    HARNESS = os.path.join(root, "harness")
    BUILD = os.path.join(root, "build")
    OUTROOT = root
    os.makedirs(BUILD, exist_ok=True)
GOENV = dict(os.environ, GOFLAGS="-mod=mod", GOPROXY="off", CGO_ENABLED=os.environ.get("CGO_ENABLED", "0"))
GOENV.pop("GOSUMDB", None)
GOENV.pop("GOTOOLCHAIN", None)
FORBIDDEN = re.compile(r"\b(Admitted|admit|Axiom|Axioms|Parameter|Parameters|Conjecture|Conjectures|Admit Obligations)\b|Unset\s+Guard|bypass_check|type-in-type|impredicative-set|Unset\s+Universe\s+Checking|Unset\s+Positivity")


def sh(cmd, cwd=None, timeout=None, env=None):
    """Run a command, return (rc, combined output)."""
    try:
        p = subprocess.run(cmd, cwd=cwd, env=env, timeout=timeout, stdout=subprocess.PIPE,
                           stderr=subprocess.STDOUT, shell=isinstance(cmd, str))
        return p.returncode, p.stdout.decode("utf-8", "replace")
    except subprocess.TimeoutExpired as e:
        out = (e.stdout or b"").decode("utf-8", "replace")
        return 124, out + "\n[timeout after %ss]" % timeout


class Lock:
    def __init__(self, name):
        os.makedirs(BUILD, exist_ok=True)
        self.path = os.path.join(BUILD, name + ".lock")

    def __enter__(self):
        self.f = open(self.path, "w")
        fcntl.flock(self.f, fcntl.LOCK_EX)

    def __exit__(self, *a):
        fcntl.flock(self.f, fcntl.LOCK_UN)
        self.f.close()


def strip_comments(src):
    out, depth, i, n = [], 0, 0, len(src)
    instr = False
    while i < n:
        if not instr and src.startswith("(*", i):
            depth += 1
            i += 2
        elif not instr and depth and src.startswith("*)", i):
            depth -= 1
            i += 2
        else:
            if depth == 0:
                if src[i] == '"':
                    instr = not instr
                out.append(src[i])
            i += 1
    return "".join(out)


def coq_makefile():
    """(Re)generate coq/Makefile from the .v files present. Caller holds the coq lock."""
    files = []
    for d in ("Gen", "Model", "Spec", "Proof", "Check", "Properties"):
        p = os.path.join(COQ, d)
        if os.path.isdir(p):
            for f in sorted(os.listdir(p)):
                if f.endswith(".v"):
                    files.append(d + "/" + f)
    proj = "-Q . FH\n" + "\n".join(files) + "\n"
    pj = os.path.join(COQ, "_CoqProject")
    old = open(pj).read() if os.path.exists(pj) else ""
    if old != proj or not os.path.exists(os.path.join(COQ, "Makefile")):
        open(pj, "w").write(proj)
        rc, out = sh(["coq_makefile", "-f", "_CoqProject", "-o", "Makefile"], cwd=COQ, timeout=120)
        if rc != 0:
            raise RuntimeError("coq_makefile failed: " + out)


def make(target, timeout):
    """make one target; when the file set changed under us (another writer added/removed a .v), regenerate and retry."""
    rc, out = 1, ""
    for attempt in range(3):
        rc, out = sh(["make", "-j16", target], cwd=COQ, timeout=timeout)
        if rc != 0 and "No rule to make target" in out:
            try:
                os.remove(os.path.join(COQ, "Makefile"))
            except FileNotFoundError:
                pass
            coq_makefile()
            time.sleep(1)
            continue
        break
    return rc, out


def cone(target_v):
    """Source files the target depends on (within coq/)."""
    rc, out = sh(["coqdep", "-Q", ".", "FH", "-sort", target_v], cwd=COQ, timeout=120)
    files = [f for f in out.split() if f.endswith(".v")]
    return files if rc == 0 else [target_v]


def run_translator(ids, res):
    tbin = os.path.join(BUILD, "bin", "translator")
    os.makedirs(os.path.dirname(tbin), exist_ok=True)
    rc, out = sh(["go", "build", "-o", tbin, "."], cwd=os.path.join(VERIF, "translator"), env=GOENV, timeout=600)
    if rc != 0:
        res["translator_error"] = out[-3000:]
        return False
    hashes = {}
    for i in ids:
        hp = os.path.join(BUILD, "hashes_%s.json" % i)
        rc, out = sh([tbin, "-repo", REPO, "-specs", os.path.join(VERIF, "translator", "specs"),
                      "-out", os.path.join(COQ, "Gen"), "-only", i, "-hashes", hp], timeout=120)
        if rc != 0:
            res["translator_error"] = out[-3000:]
            return False
        try:
            hashes.update(json.load(open(hp)).get(i, {}))
        except Exception:
            pass
    res["func_hashes"] = hashes
    return True


def parse_assumptions(out, theorems):
    """Split coqc output of Properties/<ID>.v into per-theorem Print Assumptions results."""
    res = {}
    # Output blocks appear in order of the Print Assumptions commands.
    blocks = re.split(r"(?=Closed under the global context|Axioms:)", out)
    blocks = [b.strip() for b in blocks if b.strip().startswith(("Closed under", "Axioms:"))]
    for name, b in zip(theorems, blocks):
        res[name] = "Closed under the global context" if b.startswith("Closed") else " ".join(b.split())
    return res


def load_known(pid):
    known, fixed = {}, []
    import glob
    paths = [os.path.join(VERIF, "known_findings.txt")] + sorted(glob.glob(os.path.join(VERIF, "findings", "*.txt")))
    for p in paths:
        if not os.path.exists(p):
            continue
        for line in open(p):
            line = line.strip()
            m = re.match(r"finding:\s+property=(\S+)\s+key=(\S+)\s+(.*)", line)
            if m and m.group(1) == pid:
                known[m.group(2)] = m.group(3)
            m = re.match(r"fixed:\s+property=(\S+)\s+(.*)", line)
            if m and m.group(1) == pid:
                fixed.append(m.group(2))
    return known, fixed


def eval_shard(path):
    d = os.path.dirname(path)
    rc, out = sh(["coqc", "-Q", COQ, "FH", os.path.basename(path)], cwd=d, timeout=1800)
    if rc != 0:
        return path, None, None, out[-2000:]

    def grab(name):
        m = re.search(name + r"\s*=\s*(\[.*?\])\s*(?:%N)?\s*:\s*list N", out, re.S)
        if not m:
            return None
        body = m.group(1).strip()[1:-1].strip()
        if not body:
            return []
        return [int(x.strip().replace("%N", "")) for x in body.split(";") if x.strip()]

    mm, pf = grab("MISMATCH"), grab("PROPFAIL")
    if mm is None or pf is None:
        return path, None, None, out[-2000:]
    return path, mm, pf, ""


def write_json(path, obj):
    os.makedirs(os.path.dirname(path), exist_ok=True)
    tmp = path + ".tmp"
    with open(tmp, "w") as f:
        json.dump(obj, f, indent=1, sort_keys=False)
        f.write("\n")
    os.replace(tmp, path)


def main(argv):
    # one check per property at a time: the run directory build/run/<ID> is shared
    pid = next((x for x in argv if not x.startswith('-')), 'none')
    with Lock('prop-' + pid):
        return _main(argv)


def _main(argv):
    import argparse
    ap = argparse.ArgumentParser()
    ap.add_argument("pid")
    ap.add_argument("--tier", default=os.environ.get("VERIF_TIER", "quick"))
    ap.add_argument("--replay")
    ap.add_argument("--n", type=int)
    ap.add_argument("--keep", action="store_true", help="keep the run directory")
    a = ap.parse_args(argv)
    pid, tier = a.pid, a.tier if a.tier in ("quick", "thorough") else "quick"
    if ALT:
        setup_alt()
    seed = int(os.environ.get("VERIF_SEED", "1") or "1")
    t0 = time.time()
    cfg = json.load(open(os.path.join(VERIF, "props", pid + ".json")))
    known, fixed = load_known(pid)
    rundir = os.path.join(BUILD, "run", pid)
    shutil.rmtree(rundir, ignore_errors=True)
    os.makedirs(rundir, exist_ok=True)
    replaydir = os.path.join(OUTROOT, "replay")
    res = {}
    violations = []      # (replay_obj, no_input_flag)
    known_lines = []
    notes = []
    prop_v = "Properties/%s.v" % pid
    check_v = cfg.get("check_v", "Check/%sCheck.v" % pid)
    theorems = []

    # ---- K0: translator ---------------------------------------------------
    tie_broken = None
    with Lock("coq"):
        if not run_translator(cfg.get("gen", []), res):
            tie_broken = "translator: " + res.get("translator_error", "")
        # ---- T: Coq -----------------------------------------------------------
        coq_makefile()
        model_ok = False
        proof_ok = False
        proof_err = ""
        assumptions = {}
        if tie_broken is None:
            rc, out = make(check_v + "o", cfg.get("coq_timeout", 1800))
            model_ok = rc == 0
            if not model_ok:
                tie_broken = "model does not build against the regenerated data: " + out[-3000:]
        src = open(os.path.join(COQ, prop_v)).read()
        theorems = re.findall(r"^\s*(?:Theorem|Lemma|Example|Corollary)\s+([A-Za-z0-9_']+)", strip_comments(src), re.M)
        if model_ok:
            try:
                os.remove(os.path.join(COQ, prop_v + "o"))
            except FileNotFoundError:
                pass
            rc, out = make(prop_v + "o", cfg.get("coq_timeout", 1800))
            proof_ok = rc == 0
            if proof_ok:
                assumptions = parse_assumptions(out, re.findall(r"Print Assumptions\s+([A-Za-z0-9_']+)", strip_comments(src)))
            else:
                proof_err = out[-3000:]
        # forbidden-construct gate over the dependency cone
        gate = []
        for f in cone(prop_v) + cone(check_v):
            try:
                body = strip_comments(open(os.path.join(COQ, f)).read())
            except FileNotFoundError:
                continue
            for m in FORBIDDEN.finditer(body):
                gate.append("%s: %s" % (f, m.group(0)))
        gate = sorted(set(gate))
        if gate:
            proof_ok = False
            proof_err = "forbidden constructs: " + "; ".join(gate)
        coqchk_out = None
        if proof_ok and tier == "thorough" and cfg.get("coqchk", True) and os.environ.get("VERIF_COQCHK", "1") == "1":
            rc, out = sh(["coqchk", "-silent", "-o", "-Q", ".", "FH", "FH.Properties." + pid], cwd=COQ, timeout=3000)
            coqchk_out = ("rc=%d " % rc) + " ".join(out.split())[-1500:]
            if rc not in (0, 124):
                proof_ok = False
                proof_err = "coqchk rejected the development: " + out[-2000:]

    # ---- harness ------------------------------------------------------------
    n = a.n or cfg.get(tier, {}).get("n", 1000)
    # change-directed budget: a changed structural hash of a modelled function raises the quick budget
    base_hashes_p = os.path.join(VERIF, "props", pid + ".hashes.json")
    changed_funcs = []
    if os.path.exists(base_hashes_p):
        base = json.load(open(base_hashes_p))
        changed_funcs = sorted(k for k, v in res.get("func_hashes", {}).items() if base.get(k) != v)
        if changed_funcs and tier == "quick" and not a.n:
            n = max(n, cfg.get("changed", {}).get("n", min(cfg.get("thorough", {}).get("n", n), 5 * n)))
    hbin = os.path.join(BUILD, "bin", cfg["harness"])
    stats = {}
    mism, pfail, shard_errs = [], [], []
    recs = []
    if model_ok:
        with Lock("go-" + cfg["harness"]):
            tags = cfg.get("go_tags", "verif")
            cmd = ["go", "build", "-tags", tags]
            if tier == "thorough" and cfg.get("race"):
                cmd.append("-race")
            env = dict(GOENV)
            if "-race" in cmd:
                env["CGO_ENABLED"] = "1"
            rc, out = sh(cmd + ["-o", hbin, "./" + cfg["harness"]], cwd=HARNESS, env=env, timeout=900)
        if rc != 0:
            tie_broken = "harness does not build against /repo (-tags %s): %s" % (tags, out[-3000:])
        else:
            cmd = [hbin, "-seed", str(seed), "-n", str(n), "-out", rundir]
            corpus = os.path.join(VERIF, "corpus", pid + ".jsonl")
            if os.path.exists(corpus):
                cmd += ["-corpus", corpus]
            if a.replay:
                cmd += ["-replay", a.replay]
            henv = dict(os.environ)
            henv.update(cfg.get("harness_env", {}))
            rc, out = sh(cmd, timeout=cfg.get(tier, {}).get("timeout", 3000), env=henv, cwd=rundir)
            if rc != 0:
                crashed = None
                try:
                    crashed = json.load(open(os.path.join(rundir, "current.json")))
                except Exception:
                    pass
                if crashed is not None:
                    what = "hangs (no result within the per-case time limit)" if rc == 3 else "brings the harness process down (panic in the implementation, possibly in one of its own goroutines, or a harness assertion about the implementation failing)"
                    res["crash"] = {"desc": crashed.get("desc"), "case_index": crashed.get("i"), "what": what, "output_tail": out[-3000:]}
                else:
                    tie_broken = "harness run failed (rc=%d): %s" % (rc, out[-3000:])
            else:
                stats = json.load(open(os.path.join(rundir, "stats.json")))
                recs = [json.loads(l) for l in open(os.path.join(rundir, "cases.jsonl"))]
                shards = sorted(f for f in os.listdir(rundir) if re.match(r"cases_\d+\.v$", f))
                slen = stats.get("shard_len", 400)
                with cf.ThreadPoolExecutor(max_workers=int(os.environ.get("VERIF_JOBS", "14"))) as ex:
                    for path, mm, pf, err in ex.map(eval_shard, [os.path.join(rundir, s) for s in shards]):
                        k = int(re.search(r"cases_(\d+)\.v", path).group(1))
                        if mm is None:
                            shard_errs.append("%s: %s" % (os.path.basename(path), err))
                            continue
                        mism += [k * slen + i for i in mm]
                        pfail += [k * slen + i for i in pf]
                if shard_errs:
                    tie_broken = "case files do not evaluate: " + shard_errs[0][-2500:]

    # ---- verdict ------------------------------------------------------------
    os.makedirs(replaydir, exist_ok=True)

    def replay_path(tag):
        return os.path.join(replaydir, "%s-%d-%s.json" % (pid, seed, tag))

    if res.get("crash"):
        p = replay_path("crash")
        write_json(p, {"property": pid, "kind": "implementation-crashed-or-hung", "what": "the real code " + res["crash"]["what"] + " while running this case",
                       "case_index": res["crash"]["case_index"], "desc": res["crash"]["desc"], "output_tail": res["crash"]["output_tail"],
                       "seed": seed, "tier": tier, "how": "./check %s --replay %s" % (pid, p)})
        violations.append((p, False))
    seen_known = {}
    unlisted = []
    for i in sorted(set(pfail)):
        r = recs[i]
        key = r.get("key") or ""
        if key and key in known:
            seen_known.setdefault(key, r)
        else:
            unlisted.append(i)
    for key, r in seen_known.items():
        known_lines.append("KNOWN-FINDING: property=%s key=%s %s" % (pid, key, known[key]))
    if unlisted:
        # one replay per distinct key (or per case when unkeyed), first few
        byk = {}
        for i in unlisted:
            byk.setdefault(recs[i].get("key") or "case-%d" % i, i)
        for j, (k, i) in enumerate(list(byk.items())[:5]):
            p = replay_path("propfail-%d" % j)
            write_json(p, {"property": pid, "kind": "property-fails-on-implementation", "key": k, "case_index": i,
                           "desc": recs[i]["desc"], "also_model_mismatch": i in mism, "seed": seed, "tier": tier,
                           "how": "./check %s --replay %s" % (pid, p), "total_failing_cases": len(unlisted)})
            violations.append((p, False))
    only_mismatch = [i for i in sorted(set(mism)) if i not in set(pfail)]
    if not unlisted:
        if only_mismatch:
            i = only_mismatch[0]
            p = replay_path("correspondence")
            write_json(p, {"property": pid, "kind": "correspondence-broken", "broken": "correspondence %s.corr_ok (model vs implementation)" % check_v,
                           "case_index": i, "desc": recs[i]["desc"], "mismatching_cases": len(only_mismatch), "seed": seed,
                           "searched": "property oracle evaluated on all %d implementation results of this run: no failing input" % len(recs),
                           "how": "./check %s --replay %s" % (pid, p)})
            violations.append((p, True))
        elif tie_broken and not res.get("crash"):
            p = replay_path("tie")
            write_json(p, {"property": pid, "kind": "tie-broken", "broken": tie_broken, "seed": seed,
                           "searched": "%d cases evaluated before the tie broke" % len(recs)})
            violations.append((p, True))
        elif not proof_ok:
            p = replay_path("proof")
            write_json(p, {"property": pid, "kind": "proof-broken", "broken": "theorems of coq/%s no longer check" % prop_v,
                           "error": proof_err, "seed": seed,
                           "searched": "model and property oracle evaluated on %d cases against the implementation: no failing input" % len(recs)})
            violations.append((p, True))

    # ---- evidence -----------------------------------------------------------
    discharged = len(theorems) if proof_ok else 0
    tb = ["Coq 8.16.1 kernel + vm_compute (no native_compute)",
          "translator /verif/translator (data only: tables, constants, literals)",
          "correspondence: Go harness /verif/harness/%s + case files evaluated by coqc (no extraction)" % cfg["harness"]]
    for t, v in assumptions.items():
        tb.append("Print Assumptions %s: %s" % (t, v))
    if coqchk_out:
        tb.append("coqchk: " + coqchk_out)
    tb += cfg.get("trusted", [])
    cov = {
        "obligations": max(len(theorems), 1),
        "discharged": discharged,
        "checker_cmd": "make -C /verif/coq %so  (coqc 8.16.1, full .vo build) ; coqc on %d case shard(s)" % (prop_v, stats.get("shards", 0)),
        "trusted_base": tb,
        "theorems": theorems,
        "evaluations": stats.get("evaluations", 0),
        "distinct_nontrivial": stats.get("distinct_nontrivial", 0),
        "rule": stats.get("rule", ""),
        "samples": stats.get("samples", []) or [{"note": "no cases evaluated"}],
        "kinds": stats.get("kinds", {}),
        "sizes": stats.get("sizes", {}),
        "traces_validated_against_impl": stats.get("evaluations", 0) if not tie_broken else 0,
        "model_impl_mismatches": len(set(mism)),
        "property_failures_on_impl": len(set(pfail)),
        "known_findings_seen": sorted(seen_known),
        "changed_modelled_functions": changed_funcs,
        "explanation": cfg.get("explanation", ""),
    }
    ev = {"property_id": pid, "tier": tier, "seed": seed, "level": "proof", "coverage": cov,
          "assumptions": cfg.get("assumptions", []), "wall_s": round(time.time() - t0, 2),
          "violations": len(violations)}
    write_json(os.path.join(OUTROOT, "evidence", pid + ".json"), ev)

    for l in known_lines:
        print(l)
    for n_ in notes:
        print("NOTE:", n_)
    print("%s: theorems %d/%d, cases %d (distinct non-trivial %d), mismatches %d, property failures %d (known keys %d), %.1fs"
          % (pid, discharged, len(theorems), stats.get("evaluations", 0), stats.get("distinct_nontrivial", 0),
             len(set(mism)), len(set(pfail)), len(seen_known), time.time() - t0))
    if not a.keep and not violations:
        shutil.rmtree(rundir, ignore_errors=True)
    if violations:
        for p, noinput in violations:
            print("VIOLATION property=%s replay=%s%s" % (pid, p, " no-failing-input-found" if noinput else ""))
        return 1
    return 0


if __name__ == "__main__":
    sys.exit(main(sys.argv[1:]))
