#!/bin/sh
# Build everything the checks need from files on disk (offline).  Safe to re-run.
set -u
cd "$(dirname "$0")"
export GOFLAGS=-mod=mod GOPROXY=off
mkdir -p build/bin evidence replay
( cd translator && go build -o ../build/bin/translator . ) || exit 1
build/bin/translator -repo "${VERIF_REPO:-/repo}" -specs translator/specs -out coq/Gen || exit 1
python3 - <<'PY'
import sys; sys.path.insert(0, "lib")
import vlib
with vlib.Lock("coq"):
    vlib.coq_makefile()
PY
( cd coq && timeout 3000 make -k -j16 >/dev/null 2>build.log; tail -3 build.log )
cp /repo/go.sum harness/go.sum 2>/dev/null
for d in harness/c*/; do
  n=$(basename "$d")
  ( cd harness && go build -tags verif -o ../build/bin/$n ./$n ) || echo "harness $n failed to build"
done
exit 0
