module verif/translator

go 1.25.0
