// translator: regenerates the data part of the Coq model from /repo's Go source.
//
// usage: translator -repo /repo -specs /verif/translator/specs -out /verif/coq/Gen [-only C30]
//
// Every spec file specs/<ID>.json produces coq/Gen/Gen<ID>.v.  Item kinds:
//   table     : a string constant holding a byte table      -> Definition name : list N
//   intconst  : an integer constant expression               -> Definition name : Z  (or W -> Z when it
//               depends on the platform word size through strconv.IntSize / math.MaxInt / bits.UintSize)
//   bytes     : a package-level var/const holding a []byte("..") or "..." literal -> Definition name : list N
//   caseset   : the constant case labels of a switch inside a function (all clauses, or the clause whose
//               body matches "ret": "true"/"false") -> Definition name : list (list N) (strings) or list Z
//   funchash  : structural hash of a function's AST (change-directed budget; never fails a check)
// A missing item is a hard error (exit 2): the tie to the source is broken.
package main

import (
	"bytes"
	"crypto/sha256"
	"encoding/hex"
	"encoding/json"
	"flag"
	"fmt"
	"go/ast"
	"go/parser"
	"go/printer"
	"go/token"
	"os"
	"path/filepath"
	"sort"
	"strconv"
	"strings"
)

type Item struct {
	Kind  string `json:"kind"`
	File  string `json:"file"`
	Name  string `json:"name"`            // Go identifier (const/var) or function name
	As    string `json:"as,omitempty"`    // Coq name (default: Name)
	Build string `json:"build,omitempty"` // for intconst defined per build file: ignored, file selects
	Ret   string `json:"ret,omitempty"`   // caseset: only clauses whose body is `return <ret>`
	Nth   int    `json:"nth,omitempty"`   // caseset: index of the switch statement inside the function
	Recv  string `json:"recv,omitempty"`  // funchash/caseset: receiver type name (methods)
}

type Spec struct {
	Items []Item `json:"items"`
}

var fset = token.NewFileSet()
var fileCache = map[string]*ast.File{}

func die(f string, a ...any) {
	fmt.Fprintf(os.Stderr, "translator: "+f+"\n", a...)
	os.Exit(2)
}

func parseFile(repo, rel string) *ast.File {
	p := filepath.Join(repo, rel)
	if f, ok := fileCache[p]; ok {
		return f
	}
	f, err := parser.ParseFile(fset, p, nil, parser.SkipObjectResolution)
	if err != nil {
		die("cannot parse %s: %v", p, err)
	}
	fileCache[p] = f
	return f
}

// findValue finds the initialiser expression of a package-level const/var.
func findValue(f *ast.File, name string) ast.Expr {
	for _, d := range f.Decls {
		gd, ok := d.(*ast.GenDecl)
		if !ok || (gd.Tok != token.CONST && gd.Tok != token.VAR) {
			continue
		}
		for _, s := range gd.Specs {
			vs := s.(*ast.ValueSpec)
			for i, n := range vs.Names {
				if n.Name == name && i < len(vs.Values) {
					return vs.Values[i]
				}
			}
		}
	}
	return nil
}

func findFunc(f *ast.File, name, recv string) *ast.FuncDecl {
	for _, d := range f.Decls {
		fd, ok := d.(*ast.FuncDecl)
		if !ok || fd.Name.Name != name {
			continue
		}
		if recv == "" && fd.Recv == nil {
			return fd
		}
		if recv != "" && fd.Recv != nil && len(fd.Recv.List) == 1 {
			t := fd.Recv.List[0].Type
			if st, ok := t.(*ast.StarExpr); ok {
				t = st.X
			}
			if id, ok := t.(*ast.Ident); ok && id.Name == recv {
				return fd
			}
		}
	}
	return nil
}

// stringLitCtx is stringLit that also resolves identifiers naming package-level string constants
// (and []byte(Ident) conversions of them).
func stringLitCtx(e ast.Expr, c *ctx) (string, bool) {
	if s, ok := stringLit(e); ok {
		return s, true
	}
	switch v := e.(type) {
	case *ast.Ident:
		for _, rel := range append([]string{""}, c.files...) {
			var f *ast.File
			if rel == "" {
				f = c.file
			} else {
				f = parseFile(c.repo, rel)
			}
			if val := findValue(f, v.Name); val != nil {
				if s, ok := stringLit(val); ok {
					return s, true
				}
			}
		}
	case *ast.ParenExpr:
		return stringLitCtx(v.X, c)
	case *ast.CallExpr:
		if len(v.Args) == 1 {
			if at, ok := v.Fun.(*ast.ArrayType); ok && at.Len == nil {
				return stringLitCtx(v.Args[0], c)
			}
		}
	case *ast.BinaryExpr:
		if v.Op == token.ADD {
			a, ok1 := stringLitCtx(v.X, c)
			b, ok2 := stringLitCtx(v.Y, c)
			if ok1 && ok2 {
				return a + b, true
			}
		}
	}
	return "", false
}

// funcLits collects, in source order, the integer constants (literals and constant expressions that are direct
// call arguments, slice bounds or comparison operands) and the string constants (literals, and identifiers naming
// package-level string constants used as call arguments or comparison operands) inside a function body.
func funcLits(fd *ast.FuncDecl, c *ctx) (ints []string, strs []string) {
	seen := map[ast.Node]bool{}
	var visit func(n ast.Node) bool
	visit = func(n ast.Node) bool {
		switch v := n.(type) {
		case *ast.BasicLit:
			if seen[v] {
				return false
			}
			seen[v] = true
			switch v.Kind {
			case token.INT, token.CHAR:
				z, _ := c.intExpr(v)
				ints = append(ints, z+"%Z")
			case token.STRING:
				if s, ok := stringLit(v); ok {
					strs = append(strs, coqBytes([]byte(s)))
				}
			}
			return false
		case *ast.CallExpr:
			ast.Inspect(v.Fun, visit)
			for _, a := range v.Args {
				if id, ok := a.(*ast.Ident); ok {
					if s, ok := stringLitCtx(id, c); ok {
						strs = append(strs, coqBytes([]byte(s)))
						continue
					}
				}
				if be, ok := a.(*ast.BinaryExpr); ok && constIntExpr(be) {
					z, _ := c.intExpr(be)
					ints = append(ints, z+"%Z")
					continue
				}
				ast.Inspect(a, visit)
			}
			return false
		case *ast.BinaryExpr:
			if v.Op == token.EQL || v.Op == token.NEQ {
				for _, side := range []ast.Expr{v.X, v.Y} {
					if id, ok := side.(*ast.Ident); ok {
						if s, ok := stringLitCtx(id, c); ok {
							strs = append(strs, coqBytes([]byte(s)))
							continue
						}
						if c.isPkgConst(id.Name) {
							z, _ := c.intExpr(id)
							ints = append(ints, z+"%Z")
							continue
						}
					}
					ast.Inspect(side, visit)
				}
				return false
			}
		}
		return true
	}
	ast.Inspect(fd.Body, visit)
	return
}

// constIntExpr: an arithmetic expression built from integer literals only (e.g. 8*1024, 1<<20)
func constIntExpr(e ast.Expr) bool {
	switch v := e.(type) {
	case *ast.BasicLit:
		return v.Kind == token.INT || v.Kind == token.CHAR
	case *ast.ParenExpr:
		return constIntExpr(v.X)
	case *ast.BinaryExpr:
		return constIntExpr(v.X) && constIntExpr(v.Y)
	}
	return false
}

func coqBytes(b []byte) string {
	if len(b) == 0 {
		return "[]"
	}
	var sb strings.Builder
	sb.WriteString("[")
	for i, c := range b {
		if i > 0 {
			sb.WriteString(";")
			if i%32 == 0 {
				sb.WriteString("\n   ")
			}
		}
		sb.WriteString(strconv.Itoa(int(c)))
	}
	sb.WriteString("]%N")
	return sb.String()
}

func stringLit(e ast.Expr) (string, bool) {
	switch v := e.(type) {
	case *ast.BasicLit:
		if v.Kind == token.STRING {
			s, err := strconv.Unquote(v.Value)
			if err == nil {
				return s, true
			}
		}
	case *ast.ParenExpr:
		return stringLit(v.X)
	case *ast.CallExpr: // []byte("...")
		if len(v.Args) == 1 {
			if at, ok := v.Fun.(*ast.ArrayType); ok && at.Len == nil {
				if id, ok := at.Elt.(*ast.Ident); ok && id.Name == "byte" {
					return stringLit(v.Args[0])
				}
			}
		}
	case *ast.BinaryExpr:
		if v.Op == token.ADD {
			a, ok1 := stringLit(v.X)
			b, ok2 := stringLit(v.Y)
			if ok1 && ok2 {
				return a + b, true
			}
		}
	}
	return "", false
}

// intExpr translates a Go integer constant expression into a Coq Z expression.
// usesW reports a dependency on the platform word size.
type ctx struct {
	repo  string
	file  *ast.File
	files []string // other files of the package to resolve identifiers in
	depth int
	iota  int // value of iota while translating a constant of a const group (-1: not inside one)
}

// findConst finds the expression defining a package-level constant together with its iota value,
// applying Go's implicit repetition of the previous expression inside a const group.
func findConst(f *ast.File, name string) (ast.Expr, int, bool) {
	for _, d := range f.Decls {
		gd, ok := d.(*ast.GenDecl)
		if !ok || gd.Tok != token.CONST {
			continue
		}
		var last []ast.Expr
		for i, sp := range gd.Specs {
			vs := sp.(*ast.ValueSpec)
			vals := vs.Values
			if len(vals) == 0 {
				vals = last
			} else {
				last = vals
			}
			for j, n := range vs.Names {
				if n.Name == name && j < len(vals) {
					return vals[j], i, true
				}
			}
		}
	}
	return nil, 0, false
}

// isPkgConst: name is declared by a package-level const declaration with an initialiser (or iota group)
func (c *ctx) isPkgConst(name string) bool {
	for _, rel := range append([]string{""}, c.files...) {
		var f *ast.File
		if rel == "" {
			f = c.file
		} else {
			f = parseFile(c.repo, rel)
		}
		for _, d := range f.Decls {
			gd, ok := d.(*ast.GenDecl)
			if !ok || gd.Tok != token.CONST {
				continue
			}
			for _, sp := range gd.Specs {
				vs := sp.(*ast.ValueSpec)
				for i, n := range vs.Names {
					if n.Name == name && i < len(vs.Values) {
						if _, isStr := stringLit(vs.Values[i]); !isStr {
							return true
						}
					}
				}
			}
		}
	}
	return false
}

func (c *ctx) intExpr(e ast.Expr) (string, bool) {
	c.depth++
	defer func() { c.depth-- }()
	if c.depth > 50 {
		die("constant expression too deep")
	}
	switch v := e.(type) {
	case *ast.BasicLit:
		switch v.Kind {
		case token.INT:
			n, err := strconv.ParseInt(v.Value, 0, 64)
			if err != nil {
				die("int literal %s: %v", v.Value, err)
			}
			return fmt.Sprintf("(%d)", n), false
		case token.CHAR:
			r, _, _, err := strconv.UnquoteChar(v.Value[1:len(v.Value)-1], '\'')
			if err != nil {
				die("char literal %s: %v", v.Value, err)
			}
			return fmt.Sprintf("(%d)", r), false
		}
	case *ast.ParenExpr:
		return c.intExpr(v.X)
	case *ast.UnaryExpr:
		s, w := c.intExpr(v.X)
		switch v.Op {
		case token.SUB:
			return "(- " + s + ")", w
		case token.ADD:
			return s, w
		}
	case *ast.BinaryExpr:
		a, wa := c.intExpr(v.X)
		b, wb := c.intExpr(v.Y)
		w := wa || wb
		switch v.Op {
		case token.ADD:
			return "(" + a + " + " + b + ")", w
		case token.SUB:
			return "(" + a + " - " + b + ")", w
		case token.MUL:
			return "(" + a + " * " + b + ")", w
		case token.QUO:
			return "(Z.quot " + a + " " + b + ")", w
		case token.REM:
			return "(Z.rem " + a + " " + b + ")", w
		case token.SHL:
			return "(Z.shiftl " + a + " " + b + ")", w
		case token.SHR:
			return "(Z.shiftr " + a + " " + b + ")", w
		case token.OR:
			return "(Z.lor " + a + " " + b + ")", w
		case token.AND:
			return "(Z.land " + a + " " + b + ")", w
		case token.XOR:
			return "(Z.lxor " + a + " " + b + ")", w
		}
	case *ast.SelectorExpr:
		if x, ok := v.X.(*ast.Ident); ok {
			q := x.Name + "." + v.Sel.Name
			switch q {
			case "strconv.IntSize", "bits.UintSize":
				return "W", true
			case "math.MaxInt":
				return "(2 ^ (W - 1) - 1)", true
			case "math.MaxInt32":
				return "(2147483647)", false
			case "math.MaxInt64":
				return "(9223372036854775807)", false
			case "math.MaxUint16":
				return "(65535)", false
			case "time.Nanosecond":
				return "(1)", false
			case "time.Microsecond":
				return "(1000)", false
			case "time.Millisecond":
				return "(1000000)", false
			case "time.Second":
				return "(1000000000)", false
			case "time.Minute":
				return "(60000000000)", false
			case "time.Hour":
				return "(3600000000000)", false
			}
			die("unsupported selector %s in constant expression", q)
		}
	case *ast.Ident:
		if v.Name == "iota" {
			return fmt.Sprintf("(%d)", c.iota), false
		}
		// another package-level constant: inline its translation (with its own iota)
		if val, io, ok := findConst(c.file, v.Name); ok {
			return (&ctx{repo: c.repo, file: c.file, files: c.files, depth: c.depth, iota: io}).intExpr(val)
		}
		if val := findValue(c.file, v.Name); val != nil {
			return c.intExpr(val)
		}
		for _, rel := range c.files {
			f := parseFile(c.repo, rel)
			if val, io, ok := findConst(f, v.Name); ok {
				return (&ctx{repo: c.repo, file: f, files: c.files, depth: c.depth, iota: io}).intExpr(val)
			}
			if val := findValue(f, v.Name); val != nil {
				return (&ctx{repo: c.repo, file: f, files: c.files, depth: c.depth}).intExpr(val)
			}
		}
		die("identifier %s not found while translating a constant", v.Name)
	case *ast.CallExpr: // conversions int(x), int64(x), time.Duration(x)
		if len(v.Args) == 1 {
			return c.intExpr(v.Args[0])
		}
	}
	var buf bytes.Buffer
	printer.Fprint(&buf, fset, e)
	die("unsupported constant expression: %s", buf.String())
	return "", false
}

func pkgFiles(repo, rel string) []string {
	dir := filepath.Dir(rel)
	ents, err := os.ReadDir(filepath.Join(repo, dir))
	if err != nil {
		die("readdir: %v", err)
	}
	var out []string
	for _, e := range ents {
		n := e.Name()
		if strings.HasSuffix(n, ".go") && !strings.HasSuffix(n, "_test.go") &&
			!strings.HasSuffix(n, "_32.go") && !strings.HasSuffix(n, "_windows.go") &&
			!strings.HasPrefix(n, "verif_") && n != "bytesconv_table_gen.go" {
			out = append(out, filepath.Join(dir, n))
		}
	}
	sort.Strings(out)
	return out
}

func funcHash(fd *ast.FuncDecl) string {
	var buf bytes.Buffer
	// strip comments: print the node alone (comments are attached to the file, not the decl)
	cp := *fd
	cp.Doc = nil
	printer.Fprint(&buf, token.NewFileSet(), &cp)
	s := sha256.Sum256(buf.Bytes())
	return hex.EncodeToString(s[:8])
}

func caseSet(fd *ast.FuncDecl, it Item, c *ctx) string {
	var switches []*ast.SwitchStmt
	ast.Inspect(fd.Body, func(n ast.Node) bool {
		if s, ok := n.(*ast.SwitchStmt); ok {
			switches = append(switches, s)
		}
		return true
	})
	if it.Nth >= len(switches) {
		die("caseset %s: function has %d switch statements, wanted #%d", it.Name, len(switches), it.Nth)
	}
	sw := switches[it.Nth]
	var strs []string
	var ints []string
	for _, cl := range sw.Body.List {
		cc := cl.(*ast.CaseClause)
		if it.Ret != "" {
			ok := false
			if len(cc.Body) == 1 {
				if rs, isr := cc.Body[0].(*ast.ReturnStmt); isr && len(rs.Results) == 1 {
					var b bytes.Buffer
					printer.Fprint(&b, fset, rs.Results[0])
					ok = b.String() == it.Ret
				}
			}
			if !ok {
				continue
			}
		}
		for _, e := range cc.List {
			if s, ok := stringLit(e); ok {
				strs = append(strs, coqBytes([]byte(s)))
				continue
			}
			// identifiers naming string constants (e.g. HeaderAuthorization, MethodGet)
			if id, ok := e.(*ast.Ident); ok {
				found := false
				for _, rel := range append([]string{""}, c.files...) {
					var f *ast.File
					if rel == "" {
						f = c.file
					} else {
						f = parseFile(c.repo, rel)
					}
					if val := findValue(f, id.Name); val != nil {
						if s, ok := stringLit(val); ok {
							strs = append(strs, coqBytes([]byte(s)))
							found = true
							break
						}
					}
				}
				if found {
					continue
				}
			}
			z, _ := c.intExpr(e)
			ints = append(ints, z+"%Z")
		}
	}
	if len(strs) > 0 && len(ints) > 0 {
		die("caseset %s mixes string and integer labels", it.Name)
	}
	if len(strs) == 0 && len(ints) == 0 {
		die("caseset %s: no constant labels found (pattern no longer matches)", it.Name)
	}
	if len(strs) > 0 {
		return ": list (list N) :=\n  [" + strings.Join(strs, ";\n   ") + "]"
	}
	return ": list Z :=\n  [" + strings.Join(ints, "; ") + "]"
}

func main() {
	repo := flag.String("repo", "/repo", "repository root")
	specs := flag.String("specs", "", "directory of spec files")
	out := flag.String("out", "", "output directory (coq/Gen)")
	only := flag.String("only", "", "translate only this property id")
	hashOut := flag.String("hashes", "", "write function hashes JSON here")
	flag.Parse()
	ents, err := os.ReadDir(*specs)
	if err != nil {
		die("%v", err)
	}
	hashes := map[string]map[string]string{}
	for _, e := range ents {
		if !strings.HasSuffix(e.Name(), ".json") {
			continue
		}
		id := strings.TrimSuffix(e.Name(), ".json")
		if *only != "" && id != *only {
			continue
		}
		raw, err := os.ReadFile(filepath.Join(*specs, e.Name()))
		if err != nil {
			die("%v", err)
		}
		var sp Spec
		if err := json.Unmarshal(raw, &sp); err != nil {
			die("%s: %v", e.Name(), err)
		}
		var sb strings.Builder
		fmt.Fprintf(&sb, "(* GENERATED by /verif/translator from %s — do not edit. *)\n", *repo)
		sb.WriteString("From Coq Require Import List NArith ZArith.\nImport ListNotations.\n\n")
		hashes[id] = map[string]string{}
		for _, it := range sp.Items {
			f := parseFile(*repo, it.File)
			name := it.As
			if name == "" {
				name = it.Name
			}
			c := &ctx{repo: *repo, file: f, files: pkgFiles(*repo, it.File)}
			switch it.Kind {
			case "table", "bytes":
				v := findValue(f, it.Name)
				if v == nil {
					die("%s: %s %s not found in %s", id, it.Kind, it.Name, it.File)
				}
				s, ok := stringLitCtx(v, c)
				if !ok {
					die("%s: %s in %s is not a string/[]byte literal", id, it.Name, it.File)
				}
				fmt.Fprintf(&sb, "(* %s:%s *)\nDefinition %s : list N :=\n  %s.\n\n", it.File, it.Name, name, coqBytes([]byte(s)))
			case "intconst":
				v := findValue(f, it.Name)
				if cv, io, ok := findConst(f, it.Name); ok {
					v = cv
					c.iota = io
				}
				if v == nil {
					die("%s: constant %s not found in %s", id, it.Name, it.File)
				}
				z, w := c.intExpr(v)
				var src bytes.Buffer
				printer.Fprint(&src, fset, v)
				if w {
					fmt.Fprintf(&sb, "(* %s:%s = %s *)\nDefinition %s (W : Z) : Z := (%s)%%Z.\n\n", it.File, it.Name, src.String(), name, z)
				} else {
					fmt.Fprintf(&sb, "(* %s:%s = %s *)\nDefinition %s : Z := (%s)%%Z.\n\n", it.File, it.Name, src.String(), name, z)
				}
			case "caseset":
				fd := findFunc(f, it.Name, it.Recv)
				if fd == nil {
					die("%s: function %s not found in %s", id, it.Name, it.File)
				}
				fmt.Fprintf(&sb, "(* %s: case labels of %s (switch #%d, ret=%q) *)\nDefinition %s %s.\n\n", it.File, it.Name, it.Nth, it.Ret, name, caseSet(fd, it, c))
			case "funclits":
				fd := findFunc(f, it.Name, it.Recv)
				if fd == nil {
					die("%s: function %s not found in %s", id, it.Name, it.File)
				}
				ints, strs := funcLits(fd, c)
				fmt.Fprintf(&sb, "(* %s: constants inside %s%s, in source order *)\nDefinition %s_ints : list Z :=\n  [%s].\nDefinition %s_strs : list (list N) :=\n  [%s].\n\n",
					it.File, it.Recv, it.Name, name, strings.Join(ints, "; "), name, strings.Join(strs, ";\n   "))
			case "maplit":
				v := findValue(f, it.Name)
				cl, ok := v.(*ast.CompositeLit)
				if v == nil || !ok {
					die("%s: %s in %s is not a composite literal", id, it.Name, it.File)
				}
				var pairs []string
				for _, el := range cl.Elts {
					kv, ok := el.(*ast.KeyValueExpr)
					if !ok {
						die("%s: %s has a non key-value element", id, it.Name)
					}
					ks, ok1 := stringLitCtx(kv.Key, c)
					vs, ok2 := stringLitCtx(kv.Value, c)
					if !ok1 || !ok2 {
						die("%s: %s has a non-constant string entry", id, it.Name)
					}
					pairs = append(pairs, "("+coqBytes([]byte(ks))+", "+coqBytes([]byte(vs))+")")
				}
				sort.Strings(pairs)
				fmt.Fprintf(&sb, "(* %s:%s (map literal, entries sorted) *)\nDefinition %s : list (list N * list N) :=\n  [%s].\n\n", it.File, it.Name, name, strings.Join(pairs, ";\n   "))
			case "funchash":
				fd := findFunc(f, it.Name, it.Recv)
				if fd == nil {
					die("%s: function %s not found in %s (modelled function disappeared)", id, it.Name, it.File)
				}
				key := it.File + ":" + it.Recv + "." + it.Name
				hashes[id][key] = funcHash(fd)
			default:
				die("%s: unknown item kind %q", id, it.Kind)
			}
		}
		if err := os.MkdirAll(*out, 0o755); err != nil {
			die("%v", err)
		}
		target := filepath.Join(*out, "Gen"+id+".v")
		old, _ := os.ReadFile(target)
		if !bytes.Equal(old, []byte(sb.String())) { // keep mtime when unchanged: make stays incremental
			if err := os.WriteFile(target, []byte(sb.String()), 0o644); err != nil {
				die("%v", err)
			}
		}
	}
	if *hashOut != "" {
		b, _ := json.MarshalIndent(hashes, "", " ")
		os.WriteFile(*hashOut, b, 0o644)
	}
}
